#!/usr/bin/env python3
"""Evaluate one seeded change produced by an independent sub-agent.

usage: tools/eval_mutant.py <PROP> <diff> <demo> [--checks C02,C06] [--keep NAME] [--needs "..."]

Steps (all in a scratch worktree of /repo's HEAD under /tmp/ev, removed afterwards):
  1. demo on the clean tree must exit 0, on the changed tree must exit 1;
  2. the pinned test suite must still pass on the changed tree;
  3. the named quick checks are run against the changed tree (VERIF_REPO=<worktree>), outcome recorded;
  4. with --keep, patch + demo + meta.json are stored under /verif/seeded/<NAME>/.
"""
import argparse
import json
import os
import shutil
import subprocess
import sys
import time

ap = argparse.ArgumentParser()
ap.add_argument('prop')
ap.add_argument('diff')
ap.add_argument('demo')
ap.add_argument('--checks', default=None)
ap.add_argument('--keep', default=None)
ap.add_argument('--needs', default='')
ap.add_argument('--tier', default='quick')
ap.add_argument('--skip-suite', action='store_true')
args = ap.parse_args()

PY = '/venv/bin/python'
tag = '%s-%d' % (args.prop, os.getpid())
wt = '/tmp/ev/' + tag
os.makedirs('/tmp/ev', exist_ok=True)
subprocess.run(['git', '-C', '/repo', 'worktree', 'add', '-q', '--detach', wt, 'HEAD'], check=True)
result = {'property': args.prop, 'diff': args.diff}
try:
    env = dict(os.environ, PYTHONPATH=wt, PYTHONDONTWRITEBYTECODE='1')
    r0 = subprocess.run([PY, args.demo], cwd=wt, env=env, capture_output=True, text=True, timeout=600)
    result['demo_clean_exit'] = r0.returncode
    a = subprocess.run(['git', '-C', wt, 'apply', '--whitespace=nowarn', args.diff], capture_output=True, text=True)
    if a.returncode:
        a = subprocess.run(['git', '-C', wt, 'apply', '-3', '--whitespace=nowarn', args.diff], capture_output=True, text=True)
    result['applies'] = a.returncode == 0
    if a.returncode:
        result['apply_error'] = a.stderr[-400:]
    else:
        r1 = subprocess.run([PY, args.demo], cwd=wt, env=env, capture_output=True, text=True, timeout=600)
        result['demo_mutant_exit'] = r1.returncode
        result['demo_mutant_out'] = (r1.stdout + r1.stderr)[-300:]
        if not args.skip_suite:
            s = subprocess.run(['/verif/tools/run_suite.sh', wt], capture_output=True, text=True, timeout=1800)
            result['suite'] = s.stdout.strip().splitlines()[0] if s.stdout.strip() else s.stderr[-200:]
            result['suite_ok'] = s.returncode == 0
        checks = (args.checks or args.prop).split(',')
        result['checks'] = {}
        for c in checks:
            t0 = time.time()
            cenv = dict(os.environ, VERIF_REPO=wt)
            cr = subprocess.run([os.environ.get('VERIF_CHECK', '/verif/check'), c, '--tier', args.tier], cwd=os.path.dirname(os.environ.get('VERIF_CHECK', '/verif/check')), env=cenv, capture_output=True, text=True, timeout=7200)
            keys = [l.strip() for l in cr.stdout.splitlines() if l.strip().startswith('key=')]
            result['checks'][c] = {'exit': cr.returncode, 'keys': [k[:160] for k in keys[:4]], 'wall_s': round(time.time() - t0, 1)}
            if cr.returncode == 2:
                result['checks'][c]['harness'] = cr.stdout[-600:]
        result['detected_by'] = [c for c, v in result['checks'].items() if v['exit'] == 1]
    if args.keep and result.get('applies'):
        d = '/verif/seeded/' + args.keep
        os.makedirs(d, exist_ok=True)
        shutil.copy(args.diff, d + '/patch.diff')
        shutil.copy(args.demo, d + '/demo.py')
        meta = {
            'property': args.prop,
            'needs_to_manifest': args.needs,
            'confirmed': {
                'demo_exit_on_clean_tree': result.get('demo_clean_exit'),
                'demo_exit_with_change': result.get('demo_mutant_exit'),
                'test_suite_with_change': result.get('suite'),
            },
            'ran': 'tools/eval_mutant.py: scratch worktree of /repo HEAD, git apply, demo before/after, tools/run_suite.sh, quick checks with VERIF_REPO=<worktree>',
            'checks_run': result.get('checks'),
            'detected_by': result.get('detected_by'),
            'origin': 'independent sub-agent given only the property text and its own worktree',
        }
        json.dump(meta, open(d + '/meta.json', 'w'), indent=1)
finally:
    subprocess.run(['git', '-C', '/repo', 'worktree', 'remove', '--force', wt])
print(json.dumps(result, indent=1))
