#!/usr/bin/env python3
"""tools/mut.py <file-in-repo> <old> <new> -- <checks...> : one-shot textual mutant (old must occur exactly once unless --nth k)."""
import subprocess, sys
args = sys.argv[1:]
nth = None
if args[0] == '--nth':
    nth = int(args[1]); args = args[2:]
path, old, new = args[0], args[1], args[2]
checks = args[args.index('--') + 1:]
full = '/repo/' + path
s = open(full).read()
if subprocess.run(['git', '-C', '/repo', 'diff', '--quiet']).returncode:
    sys.exit('/repo dirty')
cnt = s.count(old)
if cnt == 0 or (cnt != 1 and nth is None):
    sys.exit('old occurs %d times' % cnt)
if nth is None:
    t = s.replace(old, new)
else:
    parts = s.split(old)
    t = old.join(parts[:nth + 1]) + new + old.join(parts[nth + 1:])
open(full, 'w').write(t)
try:
    for c in checks:
        if c == 'suite':
            r = subprocess.run(['/verif/tools/run_suite.sh', '/repo'], capture_output=True, text=True)
            print('suite:', r.stdout.strip().splitlines()[0] if r.stdout else r.stderr[-300:])
            continue
        r = subprocess.run(['/verif/check', c, '--tier', 'quick'], capture_output=True, text=True, cwd='/verif')
        lines = [l for l in r.stdout.splitlines() if l.startswith(('VIOLATION', 'KNOWN', 'HARNESS', 'C')) or 'key=' in l]
        print('\n'.join(lines[:7]) or r.stdout[-500:] + r.stderr[-500:])
        print('exit', r.returncode)
finally:
    subprocess.run(['git', '-C', '/repo', 'checkout', '--', '.'])
