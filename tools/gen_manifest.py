#!/venv/bin/python
"""Regenerate MANIFEST.json from the check modules present under vf/checks (one entry per module)."""
import glob, importlib, json, os, sys
HERE = os.path.dirname(os.path.dirname(os.path.abspath(__file__)))
sys.path.insert(0, '/repo'); sys.path.insert(0, HERE)
props = [json.loads(l) for l in open(os.path.join(HERE, 'properties.jsonl'))]
checks, have = [], set()
for path in sorted(glob.glob(os.path.join(HERE, 'vf/checks/c[0-9][0-9].py'))):
    name = os.path.basename(path)[:-3]
    mod = importlib.import_module('vf.checks.' + name)
    have.add(mod.ID)
    checks.append({
        'property_id': mod.ID,
        'quick_cmd': './check %s --tier quick' % mod.ID,
        'thorough_cmd': './check %s --tier thorough' % mod.ID,
        'evidence_file': 'evidence/%s.json' % mod.ID,
        'replay_cmd_template': './check %s --replay {path}' % mod.ID,
        'engine': getattr(mod, 'ENGINE', 'vf'),
        'level_claimed': {'category': mod.LEVEL, 'text': getattr(mod, 'LEVEL_TEXT', mod.RULE), 'design_ref': 'DESIGN.md section 3, ' + mod.ID},
        'level_note': '; '.join(getattr(mod, 'ASSUMPTIONS', [])) or 'CPython/NumPy semantics trusted',
        'technique': mod.TECHNIQUE,
    })
na = [{'property_id': p['id'], 'reason': 'no check registered yet in this build of /verif (under construction; see DESIGN.md section 3)'} for p in props if p['id'] not in have]
manifest = {
    'version': 1,
    'setup_cmd': '/venv/bin/python -m compileall -q vf check >/dev/null && tla-sany models/SolveT.tla >/dev/null && mkdir -p evidence replay .work',
    'hooks': {
        'guard': 'FSIC_VERIF',
        'enable': 'no source hooks exist: the harness subclasses, wraps or views public objects; ./check exports FSIC_VERIF=1 and puts /repo first on sys.path',
        'baseline_off_cmd': 'cd /repo && /venv/bin/python -m pytest -ra -q -p no:cacheprovider --timeout=900 --continue-on-collection-errors',
        'source_commits': [],
        'add_only': True,
    },
    'engines': [
        {'name': 'E5-tlc', 'path': 'models/SolveT.tla + vf/tlc.py', 'serves_properties': ['C02', 'C06', 'C17'], 'kind_free_text': 'TLA+ model of the per-period solver checked by TLC; every terminal state replayed on the implementation'},
        {'name': 'E4-histories', 'path': 'vf/core', 'serves_properties': ['C05', 'C08', 'C09', 'C11', 'C18'], 'kind_free_text': 'explicit-state BFS over operation histories on real objects with canonical observations'},
        {'name': 'E1-E3-programs', 'path': 'vf/grammar.py vf/symrec.py vf/recarray.py', 'serves_properties': ['C01', 'C03', 'C04', 'C14', 'C15', 'C20'], 'kind_free_text': 'bounded exhaustive program enumeration, recording values with branch-outcome exploration, recording arrays'},
        {'name': 'E6-fortran', 'path': 'vf/fortran_bridge.py', 'serves_properties': ['C07'], 'kind_free_text': 'gfortran + ctypes adaptor mirroring the f2py signature'},
    ],
    'checks': checks,
    'not_applicable': na,
    'notes': 'All checks: ./check <id> --tier quick|thorough; known findings in known_findings.json; see DESIGN.md.',
}
json.dump(manifest, open(os.path.join(HERE, 'MANIFEST.json'), 'w'), indent=1)
print('checks', sorted(have), 'not claimed', [x['property_id'] for x in na])
