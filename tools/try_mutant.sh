#!/bin/bash
# usage: tools/try_mutant.sh <patch-file|-e 'python-expr on (path, old, new)'> <check ids...>
# Applies a patch to /repo, runs the quick checks named, and ALWAYS restores /repo afterwards.
PATCH=$1; shift
cd /repo || exit 2
if ! git diff --quiet; then echo "/repo dirty, refusing"; exit 2; fi
git apply "$PATCH" || { echo "patch does not apply"; exit 2; }
trap 'git -C /repo checkout -- . ' EXIT
cd /verif
for c in "$@"; do
  ./check "$c" --tier quick 2>&1 | grep -E "^(VIOLATION|KNOWN-FINDING|HARNESS|C[0-9]+ tier)|key=" | head -8
done
