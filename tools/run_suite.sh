#!/bin/bash
# Run the pinned baseline test command on a tree (default /repo) with the verification guard OFF,
# and print pass/fail counts. tests/test_fortran.py always fails offline (f2py/meson unavailable) and
# leaves generated *.f95 files behind; they are deleted afterwards.
REPO=${1:-/repo}
OUT=$(mktemp /tmp/suite.XXXXXX.xml)
cd "$REPO" && env -u FSIC_VERIF PYTHONPATH="$REPO" /venv/bin/python -m pytest -ra -q -p no:cacheprovider --timeout=900 --continue-on-collection-errors --junitxml="$OUT" >/tmp/suite.$$.log 2>&1
rm -f "$REPO"/tests/fsic_test_fortran_*.f95 "$REPO"/tests/*.so 2>/dev/null
/venv/bin/python - "$OUT" <<'PY'
import sys, json, xml.etree.ElementTree as ET
base = set(json.load(open('/root/.vp/BASELINE.json'))['stable_pass'])
passed = set()
for tc in ET.parse(sys.argv[1]).getroot().iter('testcase'):
    if not any(c.tag in ('failure', 'error', 'skipped') for c in tc):
        passed.add(tc.get('classname') + '::' + tc.get('name'))
missing = sorted(base - passed)
print('baseline %d passed-now %d baseline-missing %d' % (len(base), len(passed), len(missing)))
for m in missing[:20]:
    print('  MISSING', m)
sys.exit(1 if missing else 0)
PY
rc=$?
rm -f "$OUT" /tmp/suite.$$.log
exit $rc
