#!/bin/bash
# Run every registered check (quick tier by default) and print one summary line each.
TIER=${1:-quick}
cd "$(dirname "$0")/.."
rc=0
for id in $(python3 -c "import json;print(' '.join(c['property_id'] for c in json.load(open('MANIFEST.json'))['checks']))"); do
  out=$(./check $id --tier $TIER 2>&1); e=$?
  echo "$out" | grep -E "^(VIOLATION|HARNESS)" | head -3
  echo "$out" | tail -1 | sed "s/^/[exit $e] /"
  [ $e -ne 0 ] && rc=1
done
exit $rc
