#!/bin/bash
# usage: tools/qm.sh <patch-file> <check ids...>
# Quick look: scratch worktree of /repo HEAD under /tmp/qm, apply the patch there, run the named quick checks against it
# (VERIF_REPO), print the verdict lines, remove the worktree. /repo itself is never touched.
PATCH=$(realpath "$1"); shift
WT=/tmp/qm/$$
mkdir -p /tmp/qm
git -C /repo worktree add -q --detach "$WT" HEAD || exit 2
trap 'git -C /repo worktree remove --force "$WT"' EXIT
git -C "$WT" apply --whitespace=nowarn "$PATCH" || git -C "$WT" apply -3 --whitespace=nowarn "$PATCH" || { echo "patch does not apply"; exit 2; }
cd "$(dirname "$0")/.."
for c in "$@"; do
  VERIF_REPO=$WT ./check "$c" --tier ${TIER:-quick} 2>&1 | grep -E "^(VIOLATION|KNOWN-FINDING|HARNESS|C[0-9]+ tier)|key=" | cut -c1-300 | head -8
done
