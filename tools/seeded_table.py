#!/usr/bin/env python3
"""Print the markdown table of seeded changes (from seeded/*/meta.json) used in DESIGN.md section 9.5."""
import glob, json, os
rows = []
for f in sorted(glob.glob(os.path.join(os.path.dirname(__file__), '..', 'seeded', '*', 'meta.json'))):
    d = json.load(open(f))
    name = f.split('/')[-2]
    keys = []
    for c, v in (d.get('checks_run') or {}).items():
        if v['exit'] == 1 and v['keys']:
            keys.append('%s: `%s`' % (c, v['keys'][0].split(' cases=')[0].replace('key=', '')))
    rows.append('| %s | %s | %s | %s |' % (name, d['needs_to_manifest'], ', '.join(d.get('detected_by') or []) or '**missed**', '; '.join(keys)))
print('| seeded change | needs, to manifest | caught by (quick tier) | first violation key |')
print('|---|---|---|---|')
print('\n'.join(rows))
