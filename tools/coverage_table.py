#!/usr/bin/env python3
"""Print the DESIGN.md 9.4 table (measured coverage) from /verif/evidence/*.json as written by the last run of each check."""
import glob
import json
import os

here = os.path.dirname(os.path.dirname(os.path.abspath(__file__)))
print('| id | level | tier | cases run | non-trivial | states / transitions / traces vs impl | wall |')
print('|----|-------|------|-----------|-------------|----------------------------------------|------|')
for f in sorted(glob.glob(os.path.join(here, 'evidence', 'C*.json'))):
    d = json.load(open(f))
    c = d['coverage']
    stt = '-'
    if c.get('states') or c.get('transitions'):
        stt = '%s / %s / %s' % tuple('{:,}'.format(c.get(k, 0)).replace(',', ' ') for k in ('states', 'transitions', 'traces_validated_against_impl'))
    print('| %s | %s | %s | %s | %s | %s | %.0f s |' % (d['property_id'], d['level'], d['tier'], '{:,}'.format(c['evaluations']).replace(',', ' '),
                                                    '{:,}'.format(c['distinct_nontrivial']).replace(',', ' '), stt, d['wall_s']))
