#!/usr/bin/env python3
"""Write the prompts for one wave of independent seeded-change agents.

usage: tools/gen_wave_prompts.py <wave number> [<mutants per agent>]

For every property: /tmp/wt/out/w<N>-Cxx.prompt.txt, built from the text of the wave-5 prompt (kept as the template,
with the property text taken from properties.jsonl) and the list of mechanisms already used (seeded/*/meta.json,
'needs_to_manifest'). Nothing else from /verif reaches the agents. Scratch worktrees /tmp/wt/Cxx are created from
/repo's HEAD (outside /repo and /verif; removed after the wave).
"""
import glob
import json
import os
import re
import subprocess
import sys

wave = int(sys.argv[1])
here = os.path.dirname(os.path.dirname(os.path.abspath(__file__)))
props = [json.loads(l) for l in open(os.path.join(here, 'properties.jsonl'))]
template = open(os.path.join(here, 'tools', 'wave_prompt.template')).read()
os.makedirs('/tmp/wt/out', exist_ok=True)
C07_NOTE = '''
NOTE for this property: f2py/meson are NOT usable in this sandbox, but gfortran is installed. A helper is provided at /tmp/wt/out/C07/bridge_helper.py: `import bridge_helper as b; w=b.Workdir('x'); Py, F, src, err = b.build(fsic.parse_model(script), w)` compiles the generated Fortran with gfortran and returns the pure-Python model class `Py` and a class `F` that drives the compiled code through fsic's own FortranEngine wrapper via ctypes (F is None and err holds the compiler message if compilation fails); `b.build(symbols, w, **options)` passes lags=/leads=/min_lags=/min_leads= to both builders; call w.cleanup() at the end. Use it in your demos (add /tmp/wt/out/C07 to sys.path). The mutants may be in fsic/fortran.py (the wrapper class, the code generator or the Fortran template text).
'''
for p in props:
    pid = p['id']
    used = []
    for f in sorted(glob.glob(os.path.join(here, 'seeded', pid + '-m*', 'meta.json')), key=lambda x: int(re.search(r'-m(\d+)/', x).group(1))):
        used.append('  - a change that needs: ' + json.load(open(f))['needs_to_manifest'])
    text = 'Property %s: %s\n\nStatement: %s\n\nQuantified over: %s\n\nRelevant files: %s\n' % (
        pid, p['title'], p['statement'], p['quantifier']['text'], ', '.join(p['anchors']['files']))
    out = template.replace('@@ID@@', pid).replace('@@WAVE@@', 'w%d' % wave).replace('@@PROPERTY@@', text).replace('@@USED@@', '\n'.join(used))
    if pid == 'C07':
        # f2py is unavailable offline: the agent gets the gfortran+ctypes bridge as a stand-alone helper (a copy of vf/fortran_bridge.py)
        os.makedirs('/tmp/wt/out/C07', exist_ok=True)
        if not os.path.exists('/tmp/wt/out/C07/bridge_helper.py'):
            src = open(os.path.join(here, 'vf', 'fortran_bridge.py')).read().replace("'/verif/.work'", "'/tmp/wt/out/C07/.work'")
            open('/tmp/wt/out/C07/bridge_helper.py', 'w').write(src)
        out = out.replace('\nYour task:', C07_NOTE + '\nYour task:', 1)
    open('/tmp/wt/out/w%d-%s.prompt.txt' % (wave, pid), 'w').write(out)
    os.makedirs('/tmp/wt/out/w%d-%s' % (wave, pid), exist_ok=True)
    wt = '/tmp/wt/' + pid
    if not os.path.isdir(wt):
        subprocess.run(['git', '-C', '/repo', 'worktree', 'add', '-q', '--detach', wt, 'HEAD'], check=True)
print('prompts written for wave', wave)
