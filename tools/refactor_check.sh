#!/bin/bash
# usage: tools/refactor_check.sh <name> <diff>...   - behaviour-preserving changes must leave every check silent.
# Applies the diffs (cumulatively, 3-way) to a scratch worktree of /repo HEAD, runs all quick checks against it with
# VERIF_REPO, prints one line per check, removes the worktree.
NAME=$1; shift
WT=/tmp/qm/refactor-$NAME
mkdir -p /tmp/qm
git -C /repo worktree add -q --detach "$WT" HEAD || exit 2
trap 'git -C /repo worktree remove --force "$WT"' EXIT
for d in "$@"; do
  if git -C "$WT" apply --check --whitespace=nowarn "$d" 2>/dev/null; then git -C "$WT" apply --whitespace=nowarn "$d"; echo "applied $d"; else echo "SKIPPED (does not apply to the current tree) $d"; fi
done
git -C "$WT" diff --stat | tail -1
cd "$(dirname "$0")/.."
for i in $(seq -w 1 20); do
  VERIF_REPO=$WT ./check C$i --tier quick 2>&1 | grep -E "^(VIOLATION|HARNESS|C[0-9]+ tier)|key=" | cut -c1-260 | head -6
done
