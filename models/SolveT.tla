---------------------------- MODULE SolveT ----------------------------
(* Per-period solver of fsic (BaseModel.solve_t) as stated by properties C02/C06. *)
EXTENDS Naturals, Sequences, TLC

CONSTANTS N,          \* bound on max_iter
          Outcomes    \* subset of {"conv","moved","nanw","nans","exc"}

VARIABLES maxIter, minIter, errors, failures, cfe, pre, preHook, postHook,  \* options (fixed after Init)
          k,          \* evaluation passes performed
          prevFin,    \* next pass starts from finite check values
          afterRepl,  \* previous pass was a replaced non-finite pass (errors = "replace")
          hist,       \* history variable: outcomes so far
          status, iters, result, cause, stored, postRuns

vars == <<maxIter, minIter, errors, failures, cfe, pre, preHook, postHook,
          k, prevFin, afterRepl, hist, status, iters, result, cause, stored, postRuns>>

Max(a, b) == IF a >= b THEN a ELSE b

Options ==
    /\ maxIter \in 0..N
    /\ minIter \in 0..(maxIter + 1)
    /\ errors \in {"raise", "skip", "ignore", "replace"}
    /\ failures \in {"raise", "ignore"}
    /\ cfe \in BOOLEAN
    /\ pre \in {"finite", "nonfinite"}
    /\ preHook \in {"ok", "exc"}
    /\ postHook \in {"ok", "exc"}

FailResult == IF failures = "raise" THEN "NonConvergenceError" ELSE "False"

Init ==
    /\ Options
    /\ k = 0 /\ hist = <<>> /\ afterRepl = FALSE /\ stored = TRUE /\ postRuns = 0
    /\ prevFin = (pre = "finite")
    /\ IF minIter > maxIter
         THEN /\ result = "ValueError"   /\ cause = "none" /\ status = "-" /\ iters = 0
         ELSE IF pre = "nonfinite" /\ errors = "raise"
         THEN /\ result = "SolutionError" /\ cause = "none" /\ status = "-" /\ iters = 0
         ELSE IF preHook = "exc"
         THEN /\ result = "SolutionError" /\ cause = "exception" /\ status = "-" /\ iters = 0
         ELSE IF maxIter = 0
         THEN /\ result = FailResult /\ cause = "none" /\ status = "F" /\ iters = 0
         ELSE /\ result = "running" /\ cause = "none" /\ status = "-" /\ iters = 0

\* iters = 0 stands for "unchanged (-1)" while status = "-"; once a status is stamped iters is the stamped value.

Finish(st, it, res, cs) ==
    /\ status' = st /\ iters' = it /\ result' = res /\ cause' = cs

Continue(pf, ar) ==
    /\ prevFin' = pf /\ afterRepl' = ar
    /\ IF k + 1 = maxIter
         THEN Finish("F", maxIter, FailResult, "none")
         ELSE UNCHANGED <<status, iters, result, cause>>

KeepMode == UNCHANGED <<prevFin, afterRepl>>

OnExc(kk) ==
    /\ stored' = stored /\ postRuns' = postRuns /\ KeepMode
    /\ IF errors = "raise"
         THEN Finish("E", kk, "SolutionError", "exception")
         ELSE Finish(status, iters, "SolutionError", "exception")

OnWarnRaise(kk) ==
    /\ stored' = FALSE /\ postRuns' = postRuns /\ KeepMode
    /\ Finish("E", kk, "SolutionError", "warning")

OnNonFinite(kk) ==
    /\ stored' = stored /\ postRuns' = postRuns
    /\ IF ~prevFin THEN Continue(FALSE, FALSE)
       ELSE IF errors = "raise" THEN (KeepMode /\ Finish("E", kk, "SolutionError", "none"))
       ELSE IF errors = "skip" THEN (KeepMode /\ Finish("S", kk, "False", "none"))
       ELSE IF errors = "ignore" THEN Continue(FALSE, FALSE)
       ELSE Continue(TRUE, TRUE)

OnFinite(o, kk) ==
    /\ stored' = stored
    /\ IF ~prevFin THEN (postRuns' = postRuns /\ Continue(TRUE, FALSE))
       ELSE IF kk < minIter THEN (postRuns' = postRuns /\ Continue(TRUE, FALSE))
       ELSE IF o = "conv"
         THEN /\ postRuns' = postRuns + 1
              /\ KeepMode
              /\ IF postHook = "exc"
                   THEN Finish(status, iters, "SolutionError", "exception")
                   ELSE Finish(".", kk, "True", "none")
         ELSE (postRuns' = postRuns /\ Continue(TRUE, FALSE))

Pass(o) ==
    /\ result = "running"
    /\ k < maxIter
    /\ o \in Outcomes
    /\ (afterRepl => o # "conv")          \* excluded ambiguity, see DESIGN C06
    /\ k' = k + 1
    /\ hist' = Append(hist, o)
    /\ UNCHANGED <<maxIter, minIter, errors, failures, cfe, pre, preHook, postHook>>
    /\ IF o = "exc" THEN OnExc(k + 1)
       ELSE IF o = "nanw" /\ errors = "raise" /\ cfe THEN OnWarnRaise(k + 1)
       ELSE IF o \in {"nanw", "nans"} THEN OnNonFinite(k + 1)
       ELSE OnFinite(o, k + 1)

Next == \E o \in Outcomes : Pass(o)

Spec == Init /\ [][Next]_vars

Done == result # "running"

(* Invariants of the statement, checked on the model itself *)
StatusAlphabet == status \in {"-", ".", "F", "E", "S"}
FlagOnlyForDot == (result = "True") <=> (status = "." /\ Done)
ItersIsPasses  == (Done /\ status \in {".", "S", "E"}) => iters = k
FailedAtMax    == (status = "F") => (iters = maxIter /\ k = maxIter)
NonConvIff     == (result = "NonConvergenceError") <=> (status = "F" /\ failures = "raise")
DotNeedsMin    == (status = ".") => (k >= Max(1, minIter) /\ hist[k] = "conv")
DotFromFinite  == (status = "." /\ k >= 2) => hist[k-1] \in {"conv", "moved"}
RejectedEarly  == (result = "ValueError") => (k = 0 /\ status = "-")
PreRejected    == (pre = "nonfinite" /\ errors = "raise" /\ minIter <= maxIter) => (k = 0 /\ result = "SolutionError")
RaiseNeverPastNonFinite == (errors = "raise" /\ k >= 1 /\ result = "running") => hist[k] \in {"conv", "moved"}
PostOnce       == postRuns <= 1 /\ ((status = ".") => postRuns = 1)
=============================================================================
