# -*- coding: utf-8 -*-
"""E3 - recording arrays: an ndarray view that logs the *raw* index of every scalar read and write.

Raw indexes matter: a lag read at t=0 is the raw index -1, which NumPy silently resolves to the last period;
only the raw index distinguishes "read period t-1" from "wrapped round the span"."""
import numpy as np

LOG = []


class RecArray(np.ndarray):
    def __array_finalize__(self, obj):
        self.nm = getattr(obj, 'nm', None)

    def __getitem__(self, i):
        if isinstance(i, (int, np.integer)):
            LOG.append(('r', self.nm, int(i)))
        r = super().__getitem__(i)
        return r

    def __setitem__(self, i, v):
        if isinstance(i, (int, np.integer)):
            LOG.append(('w', self.nm, int(i)))
        elif isinstance(i, slice):
            LOG.append(('ws', self.nm, (i.start, i.stop, i.step)))
        return super().__setitem__(i, v)


def install(m, names=None):
    """Replace the storage arrays of `m` by recording views (same memory). Returns the list of names installed."""
    done = []
    d = vars(m)
    for n in (m.index if names is None else names):
        key = '_' + n
        if key in d and isinstance(d[key], np.ndarray) and d[key].dtype != object:
            a = d[key].view(RecArray)
            a.nm = n
            d[key] = a
            done.append(n)
    return done


def uninstall(m):
    d = vars(m)
    for n in m.index:
        key = '_' + n
        if isinstance(d.get(key), RecArray):
            d[key] = d[key].view(np.ndarray)
