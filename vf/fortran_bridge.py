# -*- coding: utf-8 -*-
"""E6 - Fortran bridge. f2py/Meson are unusable offline, gfortran is present: the generated source is compiled
with `gfortran -shared -fPIC` and its three external subroutines are called through ctypes by an adaptor that
reproduces the f2py call signature exactly (hidden dimension arguments appended, Fortran-ordered real(8) arrays,
integer(4) vectors passed AS GIVEN, logical(4) results). The adaptor is then plugged into fsic's own
`FortranEngine` wrapper as `ENGINE`, so error-code mapping and write-back are the real code under test."""
import ctypes
import hashlib
import os
import shutil
import subprocess

import numpy as np

import fsic
from fsic.fortran import FortranEngine, build_fortran_definition

from .core.runner import WORK_DIR, HarnessError


class Adaptor:
    def __init__(self, lib):
        self.lib = lib

    @staticmethod
    def _i(x):
        return ctypes.byref(ctypes.c_int(int(x)))

    @staticmethod
    def _p(a):
        return a.ctypes.data_as(ctypes.c_void_p)

    def evaluate(self, vals, t):
        a = np.asfortranarray(vals, dtype=np.float64)
        out = np.zeros_like(a, order='F')
        nr, nc = a.shape
        ec = ctypes.c_int(-99)
        self.lib.evaluate_(self._p(a), self._i(t), self._p(out), ctypes.byref(ec), self._i(nr), self._i(nc))
        return out, ec.value

    def solve_t(self, vals, t, min_iter, max_iter, tol, offset, conv, error_control):
        a = np.asfortranarray(vals, dtype=np.float64)
        out = np.zeros_like(a, order='F')
        nr, nc = a.shape
        cv = np.asarray(conv, dtype=np.int32)
        cb, it, ec = ctypes.c_int(0), ctypes.c_int(-99), ctypes.c_int(-99)
        self.lib.solve_t_(self._p(a), self._i(t), self._i(min_iter), self._i(max_iter), ctypes.byref(ctypes.c_double(tol)), self._i(offset),
                          self._p(cv), self._i(error_control), self._p(out), ctypes.byref(cb), ctypes.byref(it), ctypes.byref(ec),
                          self._i(nr), self._i(nc), self._i(len(cv)))
        return out, cb.value, it.value, ec.value

    def solve(self, vals, indexes, min_iter, max_iter, tol, offset, conv, failure_control, error_control):
        a = np.asfortranarray(vals, dtype=np.float64)
        out = np.zeros_like(a, order='F')
        nr, nc = a.shape
        cv = np.asarray(conv, dtype=np.int32)
        ix = np.asarray(indexes, dtype=np.int32)
        npd = len(ix)
        conv_ = np.zeros(npd, dtype=np.int32)
        its = np.zeros(npd, dtype=np.int32)
        ecs = np.zeros(npd, dtype=np.int32)
        self.lib.solve_(self._p(a), self._p(ix), self._i(min_iter), self._i(max_iter), ctypes.byref(ctypes.c_double(tol)), self._i(offset), self._p(cv),
                        self._i(failure_control), self._i(error_control), self._p(out), self._p(conv_), self._p(its), self._p(ecs),
                        self._i(nr), self._i(nc), self._i(len(cv)), self._i(npd))
        return out, conv_.astype(bool), its, ecs


class Workdir:
    def __init__(self, tag):
        os.makedirs(WORK_DIR, exist_ok=True)
        self.path = os.path.join(WORK_DIR, '%s-%d' % (tag, os.getpid()))
        os.makedirs(self.path, exist_ok=True)

    def cleanup(self):
        shutil.rmtree(self.path, ignore_errors=True)


def compile_source(src, workdir):
    """Return (ctypes library or None, compiler stderr)."""
    if shutil.which('gfortran') is None:
        raise HarnessError('gfortran not on PATH')
    tag = hashlib.md5(src.encode()).hexdigest()[:16]
    f = os.path.join(workdir.path, tag + '.f95')
    so = os.path.join(workdir.path, tag + '.so')
    with open(f, 'w') as fh:
        fh.write(src)
    r = subprocess.run(['gfortran', '-shared', '-fPIC', '-O0', '-w', '-J', workdir.path, '-o', so, f], capture_output=True, text=True)
    if r.returncode:
        return None, r.stderr
    lib = ctypes.CDLL(so)
    os.remove(f)
    os.remove(so)  # the mapping stays valid after unlinking; nothing is left on disk
    return lib, ''


def build(symbols, workdir, patch=None, **kwargs):
    """(PyModel, FortranModel or None, fortran source, compiler error)."""
    src = build_fortran_definition(symbols, **kwargs)
    if patch:
        src = patch(src)
    Py = fsic.build_model(symbols, **kwargs)
    lib, err = compile_source(src, workdir)
    if lib is None:
        return Py, None, src, err

    class F(FortranEngine, Py):
        ENGINE = Adaptor(lib)

    return Py, F, src, ''
