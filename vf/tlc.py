# -*- coding: utf-8 -*-
"""E5: run TLC on models/SolveT.tla and hand back every reachable state (history variable =>
one state per path, so every terminal state is one complete trace with its expected observables)."""
import os
import re
import shutil
import subprocess
import tempfile

from .core.runner import HarnessError, ROOT, WORK_DIR

MODEL = os.path.join(ROOT, 'models', 'SolveT.tla')

INVARIANTS = (
    'StatusAlphabet FlagOnlyForDot ItersIsPasses FailedAtMax NonConvIff DotNeedsMin DotFromFinite '
    'RejectedEarly PreRejected RaiseNeverPastNonFinite PostOnce'
)


def _parse_value(v):
    v = v.strip()
    if v.startswith('<<'):
        return re.findall(r'"(\w+)"', v)
    if v in ('TRUE', 'FALSE'):
        return v == 'TRUE'
    if v.startswith('"'):
        return v.strip('"')
    return int(v)


def parse_dump(text):
    states = []
    for block in text.split('\n\n'):
        if not block.startswith('State'):
            continue
        d = {}
        for m in re.finditer(r'/\\ (\w+) = (.*)', block):
            d[m.group(1)] = _parse_value(m.group(2))
        states.append(d)
    return states


def run_tlc(n, outcomes, tag='tlc'):
    """Return (states, info). Raises HarnessError if TLC is missing, fails or reports an invariant violation."""
    if shutil.which('tlc') is None:
        raise HarnessError('tlc not on PATH')
    os.makedirs(WORK_DIR, exist_ok=True)
    work = tempfile.mkdtemp(prefix=tag + '-', dir=WORK_DIR)
    try:
        shutil.copy(MODEL, os.path.join(work, 'SolveT.tla'))
        with open(os.path.join(work, 'SolveT.cfg'), 'w') as f:
            f.write('CONSTANTS\n  N = %d\n  Outcomes = {%s}\n' % (n, ','.join('"%s"' % o for o in outcomes)))
            f.write('INIT Init\nNEXT Next\nINVARIANTS ' + INVARIANTS + '\n')
        cmd = ['tlc', '-workers', '4', '-noGenerateSpecTE', '-deadlock', '-metadir', os.path.join(work, 'meta'),
               '-dump', os.path.join(work, 'states.dump'), 'SolveT']
        r = subprocess.run(cmd, cwd=work, capture_output=True, text=True, timeout=3600)
        out = r.stdout + r.stderr
        if 'Model checking completed. No error has been found.' not in out:
            raise HarnessError('TLC did not complete cleanly (model-level invariant violated or tool error):\n' + out[-3000:])
        m = re.search(r'(\d+) states generated, (\d+) distinct states found', out)
        if not m:
            raise HarnessError('cannot parse TLC summary:\n' + out[-2000:])
        generated, distinct = int(m.group(1)), int(m.group(2))
        mi = re.search(r'Finished computing initial states: (\d+) distinct state', out)
        initial = int(mi.group(1)) if mi else 0
        md = re.search(r'The depth of the complete state graph search is (\d+)', out)
        with open(os.path.join(work, 'states.dump')) as f:
            states = parse_dump(f.read())
        if len(states) != distinct:
            raise HarnessError('dump has %d states but TLC reports %d' % (len(states), distinct))
        info = {
            'tlc_states_generated': generated,
            'tlc_distinct_states': distinct,
            'tlc_initial_states': initial,
            'tlc_transitions': generated - initial,
            'tlc_depth': int(md.group(1)) if md else None,
            'tlc_invariants': INVARIANTS.split(),
            'tlc_N': n,
            'tlc_outcomes': list(outcomes),
        }
        return states, info
    finally:
        shutil.rmtree(work, ignore_errors=True)
