# -*- coding: utf-8 -*-
"""C18 - an alias is indistinguishable from the variable it names.

Deciding step: exhaustive enumeration of every alias map with <= 3 alias names over a 3-variable model
(targets: a variable, another alias - chains up to 3 -, or itself; cycles other than self-maps excluded) x
PREFERRED_NAMES subsets x operation histories performed through every name choice (alias or canonical),
each compared step by step with a twin model without aliases operated through canonical names; then
solve() and the aliased export. Construction runs under an alarm: non-termination is a violation.
"""
import itertools

import numpy as np

import fsic
from fsic.extensions import AliasMixin, TracerMixin

from ..core.observe import canon
from ..core.runner import Acc, guard, CaseTimeout, robust

ID = 'C18'
LEVEL = 'model_checking'
TECHNIQUE = 'exhaustive enumeration of alias maps x preferred-name subsets x operation histories through aliases, step-wise differential against a canonical-name twin'
RULE = ('all alias maps over aliases {I,_J,K} -> {Y,Z,X} U aliases U self (acyclic apart from self-maps) x histories of depth 1 over 8 write forms x 6 names, '
        'depth 2 on every map (thorough) / on chain and many-to-one maps (quick), each followed by all read forms, solve() and export; '
        'PREFERRED_NAMES: all subsets of size <= 2 (quick) / all subsets (thorough). states = alias configurations, transitions = operations through names, '
        'export under 6 option sets for histories of length 0; aliases in solve(trace=...) on Alias+Tracer classes; traces = histories compared with the twin; non-trivial = history that goes through at least one alias'
        ' A preference given to one instance of a class declaring none; a subclass adding only a hook; keys that are not (name, period) pairs through an alias.')
ASSUMPTIONS = [
    'alias names never equal another model variable\'s name (source marks that case undecided)',
    'ambiguous preferences may be rejected at construction or at export (ValueError either way)',
]

SPAN = [2000, 2001, 2002, 2003]
SPANS = {'int': [2000, 2001, 2002, 2003], 'alias-named': ['K', 'I', '_J', 'p3']}  # period labels that equal alias names are still period labels
LAB = {'int': (2001, 2002, 2003), 'alias-named': ('I', '_J', 'p3')}
VARS = ['Y', 'Z', 'X']
ALIASES = ['I', '_J', 'K']  # an alias may be any identifier, one that starts with an underscore included

_BASE = fsic.build_model(fsic.parse_model('Y = 0.5 * Y[-1] + X\nZ = Y + X'))
_CLS = {}


def alias_maps():
    out = []
    for r in (1, 2, 3):
        for names in itertools.combinations(ALIASES, r):
            targets = VARS + list(names)
            for tg in itertools.product(targets, repeat=r):
                m = dict(zip(names, tg))
                # exclude cycles other than self-maps
                ok = True
                for a in names:
                    seen, cur = [a], m[a]
                    while cur in m and cur != m.get(cur) and cur not in seen:
                        seen.append(cur)
                        cur = m[cur]
                    if cur in seen and not (cur in m and m[cur] == cur):
                        ok = False
                if ok:
                    out.append(m)
    return out


def resolve(m, name):
    """Reference resolution: follow the chain; a self-mapped alias names no variable (it resolves to itself)."""
    seen = set()
    while name in m and m[name] != name and name not in seen:
        seen.add(name)
        name = m[name]
    return name


def make_class(amap, pref):
    key = (tuple(sorted(amap.items())), tuple(pref))
    if key not in _CLS:
        _CLS[key] = type('Aliased', (AliasMixin, _BASE), {'ALIASES': dict(amap), 'PREFERRED_NAMES': list(pref)})
    return _CLS[key]


INIT = {'Y': [1.0, 2.0, 3.0, 4.0], 'Z': [10.0, 20.0, 30.0, 40.0], 'X': [0.5, 0.25, 0.125, 1.5]}

WRITE_FORMS = ['ctor', 'setattr', 'setitem', 'setlabel', 'setslice', 'replace', 'attr_elem', 'item_elem']


def write(m, form, name, k, sp='int'):
    l1, l2, l3 = LAB[sp]
    val = 100.0 + k
    if form == 'setattr':
        setattr(m, name, val)
    elif form == 'setitem':
        m[name] = [val, val + 1, val + 2, val + 3]
    elif form == 'setlabel':
        m[name, l1] = val
    elif form == 'setslice':
        m[name, l1:l2] = val
    elif form == 'replace':
        m.replace_values(**{name: val})
    elif form == 'attr_elem':
        getattr(m, name)[3] = val
    elif form == 'item_elem':
        m[name][0] = val


def reads(m, name, sp='int'):
    l1, l2, l3 = LAB[sp]
    return [canon(np.array(getattr(m, name))), canon(np.array(m[name])), canon(np.array(m[name, l2])), canon(np.array(m[name, l1:l3])),
            canon(np.array(m[name, :l1]))]


def amap_effective(amap):
    return [a for a in amap if resolve(amap, a) in VARS]


def state(m):
    return tuple((n, canon(vars(m)['_' + n])) for n in m.index)


@robust()
def run_history_case(case):
    amap, pref, hist = case['amap'], case['pref'], case['hist']
    out = []
    try:
        cls = make_class(amap, pref)
    except Exception as e:
        return [('class-creation', 'ok', type(e).__name__, 'cannot create class')]
    ctor = [(n, k) for k, (f, n) in enumerate(hist) if f == 'ctor']
    kw_alias = dict(INIT)
    kw_twin = dict(INIT)
    for n, k in ctor:
        c = resolve(amap, n)
        if c not in VARS:
            continue
        kw_alias.pop(c, None)
        kw_alias[n] = [200.0 + k] * 4
        kw_twin[c] = [200.0 + k] * 4
    strict = bool(case.get('strict'))
    sp = case.get('span', 'int')
    span = SPANS[sp]
    if case.get('via_dataframe'):
        # alternative constructor: the columns of a table are constructor keywords, aliases included
        import pandas as pd
        try:
            m = cls.from_dataframe(pd.DataFrame(kw_alias, index=list(span)), strict=strict)
        except Exception as e:
            return [('from_dataframe:%s' % type(e).__name__, 'constructs', repr(e)[:200], 'from_dataframe with an alias-named column failed')]
        twin = _BASE.from_dataframe(pd.DataFrame(kw_twin, index=list(span)), strict=strict)
        if state(m) != state(twin):
            return [('from_dataframe:alias-column', 'same as the canonical column', 'differs', 'a column named by an alias is not loaded into the variable it names')]
        return []
    try:
        m = cls(list(span), strict=strict, **kw_alias)
    except Exception as e:
        amb = len({resolve(amap, p) for p in pref}) < len(pref)
        if amb and isinstance(e, ValueError):
            return []
        return [('constructor:%s' % type(e).__name__, 'constructs', repr(e)[:200], 'aliased model cannot be constructed')]
    twin = _BASE(list(span), strict=strict, **kw_twin)
    if state(m) != state(twin):
        out.append(('ctor-keyword', 'same as canonical keyword', 'differs', 'constructor keyword through an alias differs'))
        return out
    for k, (form, name) in enumerate(hist):
        if form == 'ctor':
            continue
        c = resolve(amap, name)
        if c not in VARS:
            continue  # a self-mapped alias names no variable: nothing to compare
        try:
            write(m, form, name, k, sp)
        except Exception as e:
            out.append(('write:%s:%s' % (form, type(e).__name__), 'as canonical', repr(e)[:200], 'write through an alias failed'))
            return out
        write(twin, form, c, k, sp)
        if state(m) != state(twin) or list(m.index) != list(twin.index):
            out.append(('write:%s' % form, 'same effect as on the underlying variable', 'differs', 'write through an alias has a different effect'))
            return out
        extra = set(vars(m)) - set(vars(twin)) - {'aliases', 'preferred_names'}
        if extra:
            out.append(('extra-storage', [], sorted(extra), 'alias access created additional storage'))
            return out
    for name in list(amap) + VARS:
        c = resolve(amap, name)
        if c not in VARS:
            continue
        try:
            if reads(m, name, sp) != reads(twin, c, sp):
                out.append(('read', 'same as canonical', 'differs', 'read through an alias differs'))
                return out
        except Exception as e:
            out.append(('read:%s' % type(e).__name__, 'as canonical', repr(e)[:200], 'read through an alias failed'))
            return out
    comp = m._ipython_key_completions_()
    dir(m)
    m._ipython_key_completions_()
    if not set(amap_effective(amap)) <= set(comp) or not set(twin.index) <= set(comp):
        out.append(('completions:content', sorted(set(twin.index) | set(amap_effective(amap))), sorted(comp), 'key completions must list the variables and the aliases'))
    if list(m.index) != list(twin.index) or state(m) != state(twin) or m.nbytes != twin.nbytes:
        out.append(('completions:side-effect', list(twin.index), list(m.index), 'asking for key completions / dir() changed the model (aliases must create no storage)'))
        return out
    ra = m.solve(failures='ignore')
    rb = twin.solve(failures='ignore')
    if canon(ra) != canon(rb) or state(m) != state(twin):
        out.append(('solve', 'same as twin', 'differs', 'solution differs from the canonical twin'))
        return out
    out += check_export(m, twin, amap, pref, case.get('export_options', not hist and len(pref) <= 1))
    if not hist and not out and len(pref) == 1 and resolve(amap, pref[0]) in VARS and pref[0] in amap and len([a for a in amap if resolve(amap, a) == resolve(amap, pref[0])]) >= 2:
        # (a variable with SEVERAL aliases, one of them preferred) a second preferred name for the same variable, added on the instance after construction (the canonical name, or another
        # alias of it), makes the preference ambiguous: the aliased export must refuse it as it does for a class-level declaration
        c0 = resolve(amap, pref[0])
        for extra_name in [c0] + [a for a in amap if a != pref[0] and resolve(amap, a) == c0][:1]:
            if extra_name == pref[0]:
                continue
            inst = cls(list(span), strict=strict, **dict(INIT))
            inst.preferred_names.append(extra_name)
            try:
                inst.to_dataframe(use_aliases=True)
                out.append(('export:ambiguous-accepted:instance-level', 'ValueError', [pref[0], extra_name], 'two preferred names for %s (the second added on the instance) must be rejected by the aliased export' % c0))
            except ValueError:
                pass
            finally:
                if list(cls.PREFERRED_NAMES) != list(pref):
                    cls.PREFERRED_NAMES[:] = list(pref)
    if not hist and not out:
        # keys that are not (name, period) pairs: refused through an alias exactly as for the variable itself (same exception class, nothing changed)
        for a in sorted(amap_effective(amap))[:2]:
            c0 = resolve(amap, a)
            for tail in ((), (LAB[sp][0], LAB[sp][1]), (LAB[sp][0], LAB[sp][1], LAB[sp][0])):
                for mode in ('get', 'set'):
                    def outcome(obj, name):
                        try:
                            if mode == 'get':
                                obj[(name,) + tail]
                            else:
                                obj[(name,) + tail] = 1.5
                            return 'accepted'
                        except Exception as e:
                            return type(e).__name__
                    before_m, before_t = state(m), state(twin)
                    om, ot = outcome(m, a), outcome(twin, c0)
                    if om != ot or (ot != 'accepted' and (state(m) != before_m)):
                        out.append(('malformed-key:%s' % mode, ot, om, 'the key %r through an alias does not behave like %r on the variable itself' % ((a,) + tail, (c0,) + tail)))
                        break
                    if ot == 'accepted' and mode == 'set' and state(m) != state(twin):
                        out.append(('malformed-key:set:state', 'as the twin', 'differs', 'an accepted odd key wrote something else through the alias'))
                        break
                if out:
                    break
            if out:
                break
    if not hist and not out and not pref:
        # the class declares no preference, one instance is given one (by assignment): its aliased export is the export of a class
        # that declares the same preference
        groups = {}
        for a in amap:
            if resolve(amap, a) in VARS and a != resolve(amap, a):
                groups.setdefault(resolve(amap, a), []).append(a)
        for c0, als in sorted(groups.items()):
            if len(als) < 2:
                continue
            chosen = sorted(als)[0]
            inst = cls(list(span), strict=strict, **dict(INIT))
            inst.preferred_names = [chosen]
            declared_cls = make_class(amap, [chosen])
            ref = declared_cls(list(span), strict=strict, **dict(INIT))
            try:
                got, want = inst.to_dataframe(use_aliases=True), ref.to_dataframe(use_aliases=True)
                if list(got.columns) != list(want.columns) or not got.equals(want):
                    out.append(('export:instance-preference-ignored', list(want.columns), list(got.columns), 'a preferred name given to one instance of a class that declares none is not used by the aliased export'))
            except Exception as e:
                out.append(('export:instance-preference:%s' % type(e).__name__, 'a table', repr(e)[:120], 'aliased export with an instance-level preference fails'))
            finally:
                if list(cls.PREFERRED_NAMES) != list(pref):
                    cls.PREFERRED_NAMES[:] = list(pref)
            break
    if not hist and not out and amap_effective(amap):
        # a subclass that adds a hook and declares nothing itself inherits the aliases: same reads, same export
        sub = type('Scenario', (cls,), {'solve_t_before': lambda self, t, **kw: None})
        try:
            si = sub(list(span), strict=strict, **dict(INIT))
            pi = cls(list(span), strict=strict, **dict(INIT))
            for a in sorted(amap_effective(amap)):
                if canon(np.asarray(si[a])) != canon(np.asarray(pi[a])):
                    out.append(('inherited-aliases:read', 'as on the declaring class', a, 'an alias declared on a parent class does not read its variable on a subclass'))
                    break
            else:
                if sorted(si.aliases.items()) != sorted(pi.aliases.items()) or not si.to_dataframe(use_aliases=True).equals(pi.to_dataframe(use_aliases=True)):
                    out.append(('inherited-aliases:export', sorted(pi.aliases.items()), sorted(si.aliases.items()), 'a subclass of an aliased class exports differently'))
        except ValueError:
            pass   # (an ambiguous declaration is refused on both)
        except Exception as e:
            out.append(('inherited-aliases:%s' % type(e).__name__, 'as on the declaring class', repr(e)[:120], 'a subclass of an aliased class cannot use the aliases'))
    if not hist and not out:
        # a preference added to ONE instance is that instance's: the class declaration and later instances keep the declared list
        declared = list(pref)
        try:
            m.preferred_names.append('late_preference')
            probe_before = hasattr(m, 'late_alias')     # a failed look-up first: nothing may be remembered from it
            m.aliases['late_alias'] = VARS[0]
            if probe_before or canon(np.asarray(m.late_alias)) != canon(np.asarray(m[VARS[0]])) or canon(np.asarray(m['late_alias', LAB[sp][0]])) != canon(np.asarray(m[VARS[0], LAB[sp][0]])):
                out.append(('instance-alias:read', 'the series of %s' % VARS[0], 'differs', 'an alias added to one instance (after a failed look-up of that name) does not read its variable'))
            elif not strict:
                keys_before = set(vars(m))
                m.late_alias = 7.25
                if set(vars(m)) != keys_before or not np.all(np.asarray(m[VARS[0]]) == 7.25):
                    out.append(('instance-alias:write', 'written through to %s, no new storage' % VARS[0], sorted(set(vars(m)) - keys_before), 'a write through an alias added to one instance created storage or missed the variable'))
            later = cls(list(span), strict=strict, **dict(INIT))
            if list(cls.PREFERRED_NAMES) != declared or list(later.preferred_names) != declared or 'late_alias' in later.aliases or 'late_alias' in cls.ALIASES:
                out.append(('class-declaration-changed', declared, [list(cls.PREFERRED_NAMES), list(later.preferred_names), sorted(later.aliases)],
                            'editing one instance\'s preferred names / aliases changed the class declaration or a later instance'))
        finally:
            if list(cls.PREFERRED_NAMES) != declared:
                cls.PREFERRED_NAMES[:] = declared
            cls.ALIASES.pop('late_alias', None)
    return out


EXPORT_OPTIONS = [{}, {'status': False}, {'iterations': False}, {'status': False, 'iterations': False}, {'include_internal': True}, {'include_internal': True, 'status': False}]


def check_export(m, twin, amap, pref, with_options=False):
    out = []
    if with_options:  # (histories of writes are exported with the default options only)
        for o in (m, twin):
            o.add_variable('_U', [9.0, 8.0, 7.0, 6.0])  # an internal variable: exported only on request
    for opt in (EXPORT_OPTIONS if with_options else EXPORT_OPTIONS[:1]):
        v = check_export_with(m, twin, amap, pref, opt, with_options)
        if v:
            return [(k + (':options' if opt else ''), e, o, w + (' with %r' % (opt,) if opt else '')) for k, e, o, w in v]
    return out


def check_export_with(m, twin, amap, pref, opt, full=True):
    out = []
    base = twin.to_dataframe(**opt)
    plain = m.to_dataframe(**opt)
    if list(plain.columns) != list(base.columns) or not all(canon(plain[c].values) == canon(base[c].values) for c in base.columns):
        out.append(('export:default', list(base.columns), list(plain.columns), 'default export differs from the twin'))
        return out
    explicit = m.to_dataframe(use_aliases=False, **opt) if full else plain
    if list(explicit.columns) != list(base.columns) or not all(canon(explicit[c].values) == canon(base[c].values) for c in base.columns):
        out.append(('export:use_aliases=False', list(base.columns), list(explicit.columns), 'export with use_aliases=False differs from the twin'))
        return out
    groups = {}
    for a in amap:
        c = resolve(amap, a)
        if c in VARS:
            groups.setdefault(c, []).append(a)
    ambiguous = len({resolve(amap, p) for p in pref}) < len(pref)
    try:
        df = m.to_dataframe(use_aliases=True, **opt)
    except ValueError:
        if ambiguous:
            return out
        out.append(('export:ValueError', 'exports', 'ValueError', 'unambiguous preferences rejected'))
        return out
    except Exception as e:
        out.append(('export:%s' % type(e).__name__, 'exports', repr(e)[:200], 'aliased export failed'))
        return out
    if ambiguous:
        out.append(('export:ambiguous-accepted', 'ValueError', list(df.columns), 'ambiguous preferences must be rejected'))
        return out
    cols = list(df.columns)
    if len(cols) != len(base.columns) or len(set(cols)) != len(cols):
        out.append(('export:columns', list(base.columns), cols, 'aliased export dropped or duplicated a column'))
        return out
    for pos, c in enumerate(base.columns):
        h = cols[pos]
        if canon(df.iloc[:, pos].values) != canon(base[c].values):
            out.append(('export:data', c, h, 'aliased export changed a data column'))
            return out
        allowed = [c] + groups.get(c, [])
        preferred = [p for p in pref if resolve(amap, p) == c]
        if preferred:
            allowed = preferred
        if h not in allowed:
            out.append(('export:header', allowed, h, 'column header is not the variable / an alias of it / the preferred name'))
            return out
    return out


# --------------------------------------------------------------------------- enumeration

_MAPS = None


def maps():
    global _MAPS
    if _MAPS is None:
        _MAPS = alias_maps()
    return _MAPS


def blocks(tier, seed):
    n = len(maps())
    step = 1
    return [{'lo': i, 'hi': min(i + step, n)} for i in range(0, n, step)]


def pref_subsets(amap, tier):
    names = list(amap) + VARS
    top = 2 if tier == 'quick' else len(names)
    for r in range(0, top + 1):
        for p in itertools.permutations(names, r) if r <= 2 else itertools.combinations(names, r):
            yield list(p)


def deep_in_quick(amap):
    """Maps that get depth-2 histories in the quick tier: every 3-chain, and all-to-one maps (12 maps)."""
    if len(amap) != 3:
        return False
    depth = {a: 0 for a in amap}
    for a in amap:
        cur, d = a, 0
        while cur in amap and amap[cur] != cur and d < 4:
            cur = amap[cur]
            d += 1
        depth[a] = d
    three_chain = sorted(depth.values()) == [1, 2, 3]
    all_to_one = len({resolve(amap, a) for a in amap}) == 1 and sorted(depth.values()) == [1, 1, 1]
    return three_chain or all_to_one


def constructs(amap, pref):
    """Construct under an alarm; returns None on success or a violation tuple."""
    try:
        with guard(2):
            make_class(amap, pref)(list(SPAN))
    except CaseTimeout:
        return ('nontermination:%s' % ('self-map' if any(k == v for k, v in amap.items()) else 'other'), 'constructor returns',
                'no result within 2 s', 'constructing a model with this alias map never terminates')
    except Exception:
        return None
    return None


_TCLS = {}


@robust()
def run_tracer_case(case):
    """An alias names its variable also where another mixin takes names: solve(trace=[alias]) records what solve(trace=[variable]) records."""
    amap = case['amap']
    key = tuple(sorted(amap.items()))
    if key not in _TCLS:
        _TCLS[key] = (type('AliasedTraced', (AliasMixin, TracerMixin, _BASE), {'ALIASES': dict(amap)}),
                      type('TracedAliased', (TracerMixin, AliasMixin, _BASE), {'ALIASES': dict(amap)}))
    if 'twin' not in _TCLS:
        _TCLS['twin'] = type('Traced', (TracerMixin, _BASE), {})
    out = []
    eff = amap_effective(amap)
    for cls in _TCLS[key]:
        for arg in [[a] for a in eff] + ([eff + ['X']] if eff else []) + [a for a in eff[:1]]:
            names = [arg] if isinstance(arg, str) else list(arg)
            m = cls(list(SPAN), **INIT)
            twin = _TCLS['twin'](list(SPAN), **INIT)
            try:
                ra = m.solve(trace=arg, failures='ignore')
            except Exception as e:
                out.append(('tracer:alias-in-trace:%s' % type(e).__name__, 'solves as with the variable names', repr(e)[:160], 'solve(trace=%r) fails on an aliased model' % (arg,)))
                return out
            rb = twin.solve(trace=[resolve(amap, n) for n in names], failures='ignore')
            if canon(ra) != canon(rb) or any(canon(m[n]) != canon(twin[n]) for n in VARS + ['status', 'iterations']):
                out.append(('tracer:solution', 'same as twin', 'differs', 'tracing by alias changed the solution'))
                return out
            for pos in range(len(SPAN)):
                ta, tb = m.trace[pos], twin.trace[pos]
                if list(ta.index) != list(tb.index) or canon(np.asarray(ta.values, dtype=float)) != canon(np.asarray(tb.values, dtype=float)):
                    out.append(('tracer:recorded-values', np.asarray(tb.values).tolist(), np.asarray(ta.values).tolist(), 'trace=%r records other values than the variables it names' % (arg,)))
                    return out
    return out


@robust()
def run_special_targets_case(case):
    """Aliases may name any variable of the model: the solution-tracking series, and variables added after construction."""
    out = []
    amap = {'st': 'status', 'it': 'iterations', 'late': 'Wlate', 'later': 'late'}
    try:
        cls = type('AliasedSpecial', (AliasMixin, _BASE), {'ALIASES': dict(amap)})
        m = cls(list(SPAN), **INIT)
        twin = _BASE(list(SPAN), **INIT)
    except Exception as e:
        return [('special-targets:constructor:%s' % type(e).__name__, 'constructs', repr(e)[:160], 'a model whose aliases name status / iterations / a variable added later cannot be constructed')]
    for o in (m, twin):
        o.add_variable('Wlate', [1.0, 2.0, 3.0, 4.0])
    try:
        m.it[1] = 7
        m['st', SPAN[2]] = 'E'
        m.later[0] = -5.0
        m['late', SPAN[1]:SPAN[2]] = 9.0
        twin.iterations[1] = 7
        twin['status', SPAN[2]] = 'E'
        twin.Wlate[0] = -5.0
        twin['Wlate', SPAN[1]:SPAN[2]] = 9.0
        same_reads = all(canon(np.asarray(getattr(m, a))) == canon(np.asarray(twin[c])) and canon(np.asarray(m[a])) == canon(np.asarray(twin[c]))
                         for a, c in (('st', 'status'), ('it', 'iterations'), ('late', 'Wlate'), ('later', 'Wlate')))
    except Exception as e:
        return [('special-targets:access:%s' % type(e).__name__, 'as the variable', repr(e)[:160], 'access through an alias of status / iterations / a later variable failed')]
    try:
        cls2 = type('AliasedInternal', (AliasMixin, _BASE), {'ALIASES': {'adj': '_U', 'st': 'status', 'gdp': 'Y'}})
        m2 = cls2(list(SPAN), **INIT)
        m2.add_variable('_U', 1.0)
        t2 = _BASE(list(SPAN), **INIT)
        t2.add_variable('_U', 1.0)
        for opt in ({}, {'status': False}, {'include_internal': True}, {'status': False, 'iterations': False, 'include_internal': True}):
            df, base = m2.to_dataframe(use_aliases=True, **opt), t2.to_dataframe(**opt)
            renamed = [{'_U': 'adj', 'status': 'st', 'Y': 'gdp'}.get(c, c) for c in base.columns]
            if list(df.columns) != renamed or any(canon(df.iloc[:, j].values) != canon(base.iloc[:, j].values) for j in range(len(renamed))):
                out.append(('special-targets:export', renamed, list(df.columns), 'aliased export with %r (aliases of an internal variable and of status)' % (opt,)))
                break
    except Exception as e:
        out.append(('special-targets:export:%s' % type(e).__name__, 'exports', repr(e)[:160], 'aliased export of a model whose aliases name an internal variable / a column that is left out'))
    if state(m) != state(twin) or not same_reads:
        out.append(('special-targets:effect', 'same as on the variable', 'differs', 'an alias of status / iterations / a later variable does not behave like it'))
    return out


def run_block(block, tier, seed):
    acc = Acc()
    if block['lo'] == 0:
        case = {'special_targets': True}
        acc.evaluations += 1
        acc.nontrivial += 1
        for key, exp, obs, what in run_special_targets_case(case):
            acc.violation(key, case, exp, obs, what)
    for amap in maps()[block['lo']:block['hi']]:
        acc.states += 1
        tcase = {'amap': amap, 'tracer': True}
        acc.evaluations += 1
        acc.nontrivial += bool(amap_effective(amap))
        for key, exp, obs, what in run_tracer_case(tcase):
            acc.violation(key, tcase, exp, obs, what)
        case0 = {'amap': amap, 'pref': [], 'hist': []}
        acc.evaluations += 1
        hang = constructs(amap, [])
        if hang:
            acc.violation(hang[0], case0, hang[1], hang[2], hang[3])
            continue
        names = list(amap) + VARS
        singles = [(f, n) for f in WRITE_FORMS for n in names]
        hists = [[h] for h in singles]
        for hist in hists:  # every single-operation history also on a span whose labels equal alias names, and via from_dataframe
            extra_cases = [{'span': 'alias-named'}]
            if hist[0][0] == 'ctor':
                extra_cases.append({'via_dataframe': True})
            for extra in extra_cases:
                case = dict({'amap': amap, 'pref': [], 'hist': [list(h) for h in hist]}, **extra)
                acc.evaluations += 1
                acc.transitions += 1
                try:
                    with guard(10):
                        v = run_history_case(case)
                except CaseTimeout:
                    acc.violation('timeout', case, 'termination', 'timeout')
                    continue
                acc.traces += 1
                acc.nontrivial += any(n in amap for _, n in hist)
                for key, exp, obs, what in v:
                    acc.violation(key + ':' + ('labels-named-like-aliases' if 'span' in extra else 'from_dataframe'), case, exp, obs, what)
        for hist in hists:  # every single-operation history also on a strict model
            case = {'amap': amap, 'pref': [], 'hist': [list(h) for h in hist], 'strict': True}
            acc.evaluations += 1
            acc.transitions += 1
            try:
                with guard(10):
                    v = run_history_case(case)
            except CaseTimeout:
                acc.violation('timeout', case, 'termination', 'timeout')
                continue
            acc.traces += 1
            acc.nontrivial += any(n in amap for _, n in hist)
            for key, exp, obs, what in v:
                acc.violation(key + ':strict', case, exp, obs, what)
        chainy = any(v in amap for v in amap.values()) or len(set(amap.values())) < len(amap)
        if tier == 'thorough' or deep_in_quick(amap):
            hists += [[a, b] for a in singles for b in singles if a[1] in amap or b[1] in amap]
        for hist in hists:
            case = {'amap': amap, 'pref': [], 'hist': [list(h) for h in hist]}
            acc.evaluations += 1
            acc.transitions += len(hist)
            try:
                with guard(10):
                    v = run_history_case(case)
            except CaseTimeout:
                acc.violation('timeout', case, 'termination', 'timeout')
                continue
            acc.traces += 1
            acc.nontrivial += any(n in amap for _, n in hist)
            for key, exp, obs, what in v:
                acc.violation(key, case, exp, obs, what)
        for pref in pref_subsets(amap, tier):
            case = {'amap': amap, 'pref': pref, 'hist': []}
            acc.evaluations += 1
            try:
                with guard(10):
                    v = run_history_case(case)
            except CaseTimeout:
                acc.violation('timeout:pref', case, 'termination', 'timeout')
                continue
            acc.traces += 1
            acc.nontrivial += 1
            acc.outcome(('pref', len(pref), 'violation' if v else 'ok'))
            for key, exp, obs, what in v:
                acc.violation(key, case, exp, obs, what)
        acc.sample({'amap': amap, 'pref': [], 'hist': [['setlabel', list(amap)[0]]]}, limit=2)
    return acc


def run_one(case):
    if case.get('tracer'):
        return run_tracer_case(case)
    if case.get('special_targets'):
        return run_special_targets_case(case)
    hang = constructs(case['amap'], case['pref'])
    if hang:
        return [hang]
    return run_history_case(case)


def finalize(acc, tier, seed):
    return {'alias_maps': len(maps()), 'write_forms': WRITE_FORMS}
