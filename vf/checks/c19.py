# -*- coding: utf-8 -*-
"""C19 - tabular export and import are faithful round trips.

Deciding step: exhaustive enumeration of (model x extra variables of every dtype and underscore-prefixed
names x solved/unsolved) x span types x all 8 flag combinations for the export, `from_dataframe` of every
exported table, linker exports over 0..2 submodels, and the symbol-table round trip over every symbol list
the program enumerator produces (functions, keywords, verbatim symbols with None fields).
"""
import itertools

import numpy as np
import pandas as pd

import fsic
import fsic.tools as tools
from fsic.core import BaseLinker, VectorContainer
from fsic.extensions import AliasMixin, ProgressBarMixin, TracerMixin

from .. import spans
from ..core.observe import canon
from ..core.runner import Acc, guard, CaseTimeout
from .. import programs

ID = 'C19'
LEVEL = 'exploration'
TECHNIQUE = 'bounded exhaustive enumeration of models x span types x flag lattice, column-wise comparison; round trip of every enumerated symbol list'
RULE = ('4 model scripts x {unsolved, solved} x extra variables (int, bool, str, float, _internal) x 17 span types (pandas spans carry a name) x 8 flag combinations for model_to_dataframe/'
        'to_dataframe, from_dataframe of each data table; linkers with 0..2 submodels x 8 flag combinations; VectorContainer.to_dataframe; '
        'symbols_to_dataframe/dataframe_to_symbols over every script of the program catalogue (all strata). '
        'non-trivial = export with at least one data column / symbol list with at least one symbol'
        ' The model export cases again on a class stacking ProgressBar/Alias/Tracer mixins with aliases defined (not asked for).'
        ' All-NaN and boolean data columns through from_dataframe; exported columns against the values put in (scalar string label included).'
        ' Internal names ending in underscores (_flag__, __k__); span types include a stepped range.')
ASSUMPTIONS = [
    'index compared as list(df.index) == list(span) (tuple labels become a MultiIndex)',
    'from_dataframe is compared on the model variables (NAMES); string/bool extras are not constructor inputs',
]

SCRIPTS = [
    'Y = C + I + G',
    'C = {alpha} * YD + {beta} * H[-1]\nYD = Y - T\nY = C + G\nT = {theta} * Y\nH = H[-1] + YD - C',
    'Y = X[1] + <e>',
    '',
    '_adj = 0.5 * X\nY = _adj + nan[-1] + NaN',      # an underscore-prefixed model variable; names that look like missing values
]
_CLS = {}


_MIXED = [False]   # (set per case: the same class with every mixin of the library stacked on it, aliases defined)


def model_class(i):
    if i not in _CLS:
        _CLS[i] = fsic.build_model(fsic.parse_model(SCRIPTS[i]))
    if _MIXED[0]:
        if ('mixed', i) not in _CLS:
            base = _CLS[i]
            names = list(base.NAMES)
            aliases = {'alias_of_%d' % k: name for k, name in enumerate(names[:2])}
            aliases.update({'hid': '_hidden', 'again': 'alias_of_0'} if names else {'hid': '_hidden'})
            _CLS[('mixed', i)] = type('Mixed%d' % i, (ProgressBarMixin, AliasMixin, TracerMixin, base), {'ALIASES': aliases})
        return _CLS[('mixed', i)]
    return _CLS[i]


def make_model(i, kind, n, solved):
    span, labels = spans.make(kind, n)
    if kind.startswith('pd_'):
        span = span.rename('when')  # a pandas span carries metadata (its name, a frequency): the export is indexed by the span itself
    m = model_class(i)(span)
    for j, name in enumerate(m.names):
        m[name] = [0.25 * (j + 1) + k for k in range(n)]
    m.add_variable('Kint', [3 + k for k in range(n)], dtype=int)
    m.add_variable('Qbool', [k % 2 == 0 for k in range(n)], dtype=bool)
    m.add_variable('Sstr', ['s%d' % k for k in range(n)], dtype='<U3')
    m.add_variable('Region', 'north', dtype=str)                            # a label given once for all periods
    m.add_variable('F32', [0.5 + k for k in range(n)], dtype=np.float32)   # sized dtypes are dtypes too
    m.add_variable('I8', [k - 2 for k in range(n)], dtype=np.int8)
    m.add_variable('U16', [1000 + k for k in range(n)], dtype=np.uint16)
    m.add_variable('_hidden', 7.5, dtype=float)
    m.add_variable('_flag__', [k % 3 for k in range(n)], dtype=int)      # internal names of other shapes: ending in underscores, all underscores but one letter
    m.add_variable('__k__', 2.5, dtype=float)
    m.add_variable('_ihid', 4, dtype=int)
    if m.names and not m.names[0].startswith('_'):
        # an internal variable whose name is '_' + the name of a model variable (its storage key differs: '__<name>')
        m.add_variable('_' + m.names[0], [k % 2 == 1 for k in range(n)], dtype=bool)
    m.add_variable('Zlast', [0.5 * k for k in range(n)], dtype=float)  # an ordinary variable AFTER the internal ones: model order is kept
    if solved and n > type(m).LAGS + type(m).LEADS:
        m.solve(max_iter=5, failures='ignore', errors='ignore')
    return m, labels


def same_index(df, labels):
    got = list(df.index)
    return len(got) == len(labels) and all(bool(a == b) for a, b in zip(got, labels))


def check_table(df, m, labels, status, iterations, include_internal, tag):
    out = []
    names = [x for x in m.names if include_internal or not x.startswith('_')]
    want_cols = names + (['status'] if status else []) + (['iterations'] if iterations else [])
    if list(df.columns) != want_cols:
        out.append(('%s:columns' % tag, want_cols, list(df.columns), 'columns are not the model variables in order (+status, +iterations as requested)'))
        return out
    if not same_index(df, labels):
        out.append(('%s:index' % tag, [repr(x) for x in labels], [repr(x) for x in df.index], 'index is not the span'))
        return out
    span = m.span
    if isinstance(span, pd.Index):
        meta = lambda ix: (type(ix).__name__, ix.name, str(getattr(ix, 'freq', None)), str(ix.dtype))
        if meta(df.index) != meta(span) or not df.index.equals(span):
            out.append(('%s:index-metadata' % tag, meta(span), meta(df.index), 'a pandas span does not index the table as it is (type, name, frequency, dtype)'))
            return out
    for c in want_cols:
        a = vars(m)['_' + c]  # the stored series itself (independent of the item-access path the export uses)
        col = df[c]
        if len(col) != len(a) or not all(_eq(x, y) for x, y in zip(col.tolist(), a.tolist())):
            out.append(('%s:values' % tag, a.tolist(), col.tolist(), 'column %s does not hold the series' % c))
            return out
        if a.dtype.kind in 'fiub' and col.dtype != a.dtype:
            out.append(('%s:dtype:%s' % (tag, a.dtype.kind), a.dtype.str, str(col.dtype), 'numeric/boolean dtype of %s not preserved' % c))
            return out
    return out


def export_is_a_copy(m, export, tag):
    """The table holds the values the series had when it was made: later writes to the model do not reach it, writes to it do not reach the model."""
    out = []
    df = export()
    frozen = {c: df[c].tolist() for c in df.columns}
    stored = {c: vars(m)['_' + c].copy() for c in df.columns}
    for c in df.columns:
        a = vars(m)['_' + c]
        k = a.dtype.kind
        a[0] = -12345.5 if k == 'f' else (int(a[0]) ^ 1) if k in 'iu' else (not bool(a[0])) if k == 'b' else 'zz' if k == 'U' else a[0]   # (integers: flip the lowest bit - fits every width)
    changed = [c for c in df.columns if not all(_eq(x, y) for x, y in zip(df[c].tolist(), frozen[c]))]
    if changed:
        out.append(('%s:table-follows-model' % tag, 'an exported table keeps its values', changed[:3], 'writing to the model afterwards changed a table exported earlier'))
        return out
    for c in df.columns:
        vars(m)['_' + c][:] = stored[c]
    df2 = export()
    try:
        for j, c in enumerate(df2.columns):
            if df2[c].dtype.kind in 'fiu':
                df2.iloc[0, j] = 77
    except Exception:
        return out
    touched = [c for c in df2.columns if vars(m)['_' + c].tobytes() != stored[c].tobytes()]
    if touched:
        out.append(('%s:model-follows-table' % tag, 'the model keeps its values', touched[:3], 'editing an exported table in place changed the model'))
    return out


def _eq(x, y):
    if isinstance(x, float) and isinstance(y, float) and x != x and y != y:
        return True
    return x == y


def run_model_case(case):
    _MIXED[0] = bool(case.get('mixins'))
    try:
        return _run_model_case(case)
    finally:
        _MIXED[0] = False


def _run_model_case(case):
    i, kind, n, solved = case['i'], case['span'], case['n'], case['solved']
    status, iterations, internal = case['flags']
    m, labels = make_model(i, kind, n, solved)
    out = []
    df1 = m.to_dataframe(status=status, iterations=iterations, include_internal=internal)
    df2 = tools.model_to_dataframe(m, status=status, iterations=iterations, include_internal=internal)
    out += check_table(df1, m, labels, status, iterations, internal, 'to_dataframe')
    out += check_table(df2, m, labels, status, iterations, internal, 'model_to_dataframe')
    # ... holding the values that were put in (not only whatever the series holds now)
    for col, put_in in (('Region', ['north'] * n), ('Sstr', ['s%d' % k for k in range(n)]), ('Kint', [3 + k for k in range(n)])):
        if not out and (col not in df1.columns or df1[col].tolist() != put_in):
            out.append(('export:values-put-in', put_in[:3], df1[col].tolist()[:3] if col in df1.columns else 'no column', 'the exported column %s does not hold the values the variable was given' % col))
    if out:
        return out
    out += export_is_a_copy(m, lambda: m.to_dataframe(status=status, iterations=iterations, include_internal=internal), 'to_dataframe')
    if out:
        return out
    # round trip through from_dataframe using the data columns of the class's own variables
    data = m.to_dataframe(status=False, iterations=False, include_internal=True)[[c for c in model_class(i).NAMES]]   # (all data columns, underscore-prefixed model variables included)
    try:
        m2 = model_class(i).from_dataframe(data)
    except Exception as e:
        return [('from_dataframe:exception:%s' % type(e).__name__, 'a model', repr(e)[:200], 'from_dataframe failed on an exported table')]
    if len(m2.span) != len(labels) or not all(bool(a == b) for a, b in zip(list(m2.span), labels)):
        out.append(('from_dataframe:span', [repr(x) for x in labels], [repr(x) for x in list(m2.span)], 'span not reproduced'))
        return out
    for name in model_class(i).NAMES:
        if canon(m2[name]) != canon(m[name]):
            out.append(('from_dataframe:values', m[name].tolist(), m2[name].tolist(), 'values of %s not reproduced' % name))
            return out
    # a boolean column (a dummy variable computed from the index) is data as well: it comes back as 1.0 / 0.0
    names = list(model_class(i).NAMES)
    if names and len(labels):
        flags = data.copy()
        flags[names[-1]] = [k % 2 == 0 for k in range(len(labels))]
        try:
            m4 = model_class(i).from_dataframe(flags)
            if canon(np.asarray(m4[names[-1]], dtype=float)) != canon(np.array([float(k % 2 == 0) for k in range(len(labels))])):
                return [('from_dataframe:boolean-column', [float(k % 2 == 0) for k in range(len(labels))], np.asarray(m4[names[-1]]).tolist(), 'a boolean data column is not read')]
        except Exception as e:
            return [('from_dataframe:boolean-column:%s' % type(e).__name__, 'a model', repr(e)[:200], 'from_dataframe failed on a table with a boolean column')]
    # a variable that is missing in every period (all NaN) is data too: it comes back as NaN, not as the default value
    if names and len(labels):
        hollow = data.copy()
        hollow[names[0]] = np.nan
        try:
            m3 = model_class(i).from_dataframe(hollow)
        except Exception as e:
            return [('from_dataframe:all-nan-column:%s' % type(e).__name__, 'a model', repr(e)[:200], 'from_dataframe failed on a table with an all-NaN column')]
        for name in names:
            want = np.full(len(labels), np.nan) if name == names[0] else np.asarray(m[name], dtype=float)
            if canon(np.asarray(m3[name], dtype=float)) != canon(want):
                out.append(('from_dataframe:all-nan-column', want.tolist(), np.asarray(m3[name]).tolist(), 'values of %s not reproduced when %s is NaN in every period' % (name, names[0])))
                return out
    return out


def run_sequence_case(case):
    """All eight flag combinations exported one after the other from the SAME object (an export must not change the model)."""
    i, kind, n, solved, order = case['i'], case['span'], case['n'], case['solved'], case['order']
    m, labels = make_model(i, kind, n, solved)
    for bad in (('Rejected1', [1.0] * (n + 1), float), ('Kint', 1, int)):
        try:
            m.add_variable(bad[0], bad[1], dtype=bad[2])  # wrong length / duplicate name: rejected, must leave the model exportable
        except Exception:
            pass
    names_before = list(m.names)
    out = []
    flags = FLAGS if order == 'forward' else list(reversed(FLAGS))
    for k, (status, iterations, internal) in enumerate(flags):
        df = m.to_dataframe(status=status, iterations=iterations, include_internal=internal)
        v = check_table(df, m, labels, status, iterations, internal, 'sequence')
        if list(m.names) != names_before:
            v.append(('sequence:names-changed', names_before, list(m.names), 'an export changed the model\'s variable list'))
        if v:
            out += [(key, exp, obs, what + ' (export %d of a sequence on one object)' % (k + 1)) for key, exp, obs, what in v]
            break
    return out


def run_container_case(case):
    kind, n = case['span'], case['n']
    span, labels = spans.make(kind, n)
    c = VectorContainer(span)
    c.add_variable('F', [1.5 + k for k in range(n)])
    c.add_variable('K', [k for k in range(n)])
    c.add_variable('Q', [k % 2 == 1 for k in range(n)])
    c.add_variable('S', ['x%d' % k for k in range(n)])
    df = c.to_dataframe()
    out = []
    if list(df.columns) != ['F', 'K', 'Q', 'S'] or not same_index(df, labels):
        out.append(('container:layout', ['F', 'K', 'Q', 'S'], list(df.columns), 'container export layout'))
        return out
    for name in c.index:
        if df[name].tolist() != c[name].tolist() or (c[name].dtype.kind in 'fiub' and df[name].dtype != c[name].dtype):
            out.append(('container:values', c[name].tolist(), df[name].tolist(), 'container export column %s' % name))
    return out


class LkX(BaseLinker):
    ENDOGENOUS = ['L']
    EXOGENOUS = ['_lint']
    NAMES = ['L', '_lint']
    CHECK = ['L']


def run_linker_case(case):
    nsub, kind, n = case['nsub'], case['span'], case['n']
    status, iterations, internal = case['flags']
    subs = {}
    lab = None
    ids = {'str': ['sub0', 'sub1'], 'int': [7, 0], 'tuple': [('DE', 1), ('FR', 2)], 'mixed': [0, 'b']}[case.get('ids', 'str')]
    core = {'str': 'core', 'int': -1, 'tuple': ('world',), 'mixed': None}[case.get('ids', 'str')]   # submodel ids and the linker's name are any hashables
    for j in range(nsub):
        m, lab = make_model(j, kind, n, False)
        subs[ids[j]] = m
    if nsub == 0:
        lk = LkX({}, name=core)
        lab = []
    else:
        lk = LkX(subs, name=core, L=2.5)
        if case['solved']:
            lk.solve(max_iter=3, failures='ignore')
    out = []
    dfs = lk.to_dataframes(status=status, iterations=iterations, include_internal=internal)
    dfs2 = tools.linker_to_dataframes(lk, status=status, iterations=iterations, include_internal=internal)
    for tag, d in (('to_dataframes', dfs), ('linker_to_dataframes', dfs2)):
        if list(d.keys()) != [core] + list(subs):
            out.append(('linker:%s:keys' % tag, [core] + list(subs), list(d.keys()), 'one table for the linker and one per submodel'))
            return out
        out += check_table(d[core], lk, list(lk.span), status, iterations, internal, 'linker:' + tag)
        for k, sub in subs.items():
            out += check_table(d[k], sub, lab, status, iterations, internal, 'linker-sub:' + tag)
    one = lk.to_dataframe(status=status, iterations=iterations, include_internal=internal)
    out += check_table(one, lk, list(lk.span), status, iterations, internal, 'linker:to_dataframe')
    return out


def run_symbols_case(case):
    script = case['script']
    try:
        syms = fsic.parse_model(script)
    except Exception:
        return [], False
    out = []
    try:
        back = tools.dataframe_to_symbols(tools.symbols_to_dataframe(syms))
    except Exception as e:
        return [('symbols:exception:%s' % type(e).__name__, 'round trip', repr(e)[:200], 'symbol round trip raised')], True
    if back != syms:
        bad = [(a, b) for a, b in zip(syms, back) if a != b][:1]
        field = '?'
        if bad:
            for f in bad[0][0]._fields:
                x, y = getattr(bad[0][0], f), getattr(bad[0][1], f)
                if not (x == y) or type(x) is not type(y):
                    field = '%s:%s->%s' % (f, type(x).__name__, type(y).__name__)
                    break
        out.append(('symbols:roundtrip:%s' % field, [tuple(s) for s in syms][:3], [tuple(s) for s in back][:3], 'dataframe_to_symbols(symbols_to_dataframe(s)) != s'))
    else:
        for a, b in zip(syms, back):
            for f in a._fields:
                if type(getattr(a, f)) is not type(getattr(b, f)) and not (isinstance(getattr(a, f), int) and isinstance(getattr(b, f), int)):
                    out.append(('symbols:types:%s' % f, type(getattr(a, f)).__name__, type(getattr(b, f)).__name__, 'field type changed in the round trip'))
                    return out, True
    return out, True


FLAGS = list(itertools.product((True, False), repeat=3))


def blocks(tier, seed):
    out = []
    for kind in spans.SPAN_TYPES:
        out.append({'kind': 'models', 'span': kind})
    out.append({'kind': 'linkers'})
    scripts = programs.catalogue(tier)
    step = max(1, len(scripts) // 32)
    for lo in range(0, len(scripts), step):
        out.append({'kind': 'symbols', 'lo': lo, 'hi': min(lo + step, len(scripts))})
    return out


def run_block(block, tier, seed):
    acc = Acc()
    if block['kind'] == 'models':
        kind = block['span']
        for n in ((4,) if tier == 'quick' else (1, 4, 6)):
            n = min(n, spans.MAX_LEN.get(kind, n))
            for i in range(len(SCRIPTS)):
                for solved in (False, True):
                    for flags in FLAGS:
                        case = dict(kind='model', i=i, span=kind, n=n, solved=solved, flags=list(flags), script=SCRIPTS[i])
                        acc.evaluations += 1
                        acc.nontrivial += 1
                        for key, exp, obs, what in guarded(run_model_case, case):
                            acc.violation(key, case, exp, obs, what)
                        if solved is False or n <= 4:
                            # the same export from a class that stacks the library's mixins (aliases defined, not asked for: the table is the same)
                            case = dict(case, mixins=True)
                            acc.evaluations += 1
                            acc.nontrivial += 1
                            for key, exp, obs, what in guarded(run_model_case, case):
                                acc.violation(key + ':stacked-mixins', case, exp, obs, what)
            for i in range(len(SCRIPTS)):
                for order in ('forward', 'backward'):
                    case = dict(kind='sequence', i=i, span=kind, n=n, solved=True, order=order, script=SCRIPTS[i])
                    acc.evaluations += 1
                    acc.nontrivial += 1
                    for key, exp, obs, what in guarded(run_sequence_case, case):
                        acc.violation(key, case, exp, obs, what)
            case = dict(kind='container', span=kind, n=n)
            acc.evaluations += 1
            acc.nontrivial += 1
            for key, exp, obs, what in guarded(run_container_case, case):
                acc.violation(key, case, exp, obs, what)
        acc.sample(dict(kind='model', script=SCRIPTS[1], span=kind, flags=[True, False, True]), limit=1)
    elif block['kind'] == 'linkers':
        for nsub in (0, 1, 2):
            for kind in ('range', 'list_str', 'list_mixed', 'tuple_int'):  # BaseLinker compares submodel spans with !=, which pandas/NumPy spans do not support
                for solved in (False, True):
                    for flags in FLAGS:
                        for ids in (('str', 'int', 'tuple', 'mixed') if kind == 'range' else ('str',)):
                            case = dict(kind='linker', nsub=nsub, span=kind, n=4, solved=solved, flags=list(flags), ids=ids)
                            acc.evaluations += 1
                            acc.nontrivial += 1
                            for key, exp, obs, what in guarded(run_linker_case, case):
                                acc.violation(key, case, exp, obs, what)
    else:
        scripts = programs.catalogue(tier)
        for script in scripts[block['lo']:block['hi']]:
            case = dict(kind='symbols', script=script)
            acc.evaluations += 1
            v, nontrivial = run_symbols_case(case)
            acc.nontrivial += nontrivial
            for key, exp, obs, what in v:
                acc.violation(key, case, exp, obs, what)
        if scripts[block['lo']:block['hi']]:
            acc.sample(dict(kind='symbols', script=scripts[block['lo']]), limit=1)
    return acc


def guarded(fn, case):
    try:
        with guard(20):
            return fn(case)
    except CaseTimeout:
        return [('timeout', 'termination', 'timeout', 'timeout')]
    except Exception as e:
        return [('exception:%s:%s' % (case['kind'], type(e).__name__), 'no exception', repr(e)[:300], 'export raised')]


def run_one(case):
    k = case['kind']
    if k == 'symbols':
        return run_symbols_case(case)[0]
    return guarded({'model': run_model_case, 'container': run_container_case, 'linker': run_linker_case, 'sequence': run_sequence_case}[k], case)


def finalize(acc, tier, seed):
    return {'scripts_in_symbol_catalogue': len(programs.catalogue(tier)), 'flags': 8}
