# -*- coding: utf-8 -*-
"""C15 - all ways of building a class from symbols yield the same model.

Deciding step: for every program of a catalogue (grammar strata, zero equations, zero symbols, verbatim-only) the
class is built by every route (build_model, exec of build_model_definition's text, exec of Model.CODE) x
with/without type hints x the lags/leads/min_* lattice x four converters; variable lists, lag/lead lengths and the
complete set of (path condition, writes) pairs of `_evaluate` over recording values (= the evaluation result on
ALL data) are compared pairwise; converter output is located in the class text.
"""
import itertools
import textwrap
import typing

import numpy as np

import fsic
from fsic.exceptions import ParserError, SymbolError

from .. import programs, symrec
from ..core.runner import Acc, guard, CaseTimeout, robust

ID = 'C15'
LEVEL = 'exploration'
TECHNIQUE = 'bounded exhaustive enumeration of programs x build routes x type hints x option lattice x converters; pairwise comparison of class attributes and of all-data evaluation results (recording values, all branch outcomes)'
RULE = ('programs: specials (empty script, no equations, verbatim-only, multi-line, comments), S1 term shapes over 6 names, extras, S4 systems (6 quick / 12 thorough RHS); '
        '3 routes x 2 type-hint settings x 4 converters with default options, 4 converters that return empty or comment-only strings, and 3 routes x lags,leads in {None,0,2} x min_lags,min_leads in {0,1}. '
        'non-trivial = accepted program with at least one symbol'
        ' Converters: one whose output the compiler warns about, one whose output is not Python (first / every equation); explicit lengths as NumPy integers.'
        ' Converter output with its own indentation and with a whitespace-only line inside a string literal is found unchanged (beyond a uniform indent); a converter that refuses a symbol by raising stops both build routes.')
ASSUMPTIONS = [
    'the exec namespace provides BaseModel and the typing names the typed template annotates with (List, Optional, Any)',
    'evaluation is compared at a period in the middle of a 9-period span (offsets up to 3 either way)',
]

SPAN_LEN = 9
T_EVAL = 4


def namespace():
    return {'BaseModel': fsic.BaseModel, 'List': typing.List, 'Optional': typing.Optional, 'Any': typing.Any, 'np': __import__('numpy')}


def exec_class(text):
    ns = namespace()
    exec(text, ns)
    return ns['Model']


def identity_converter(s):
    return s.code


def marker_converter(s):
    return '# MARK<%s>\n%s' % (s.name, s.code)


def guard_converter(s):
    if s.type.name == 'VERBATIM':
        return s.code
    lhs, rhs = map(str.strip, s.code.split('=', maxsplit=1))
    return '# {}\n_ = {}\nif _ > 0:  # Ignore negative values\n    {} = _'.format(s.equation.replace('\n', ' '), rhs, lhs)


def literal_test_converter(s):
    # valid code that the compiler warns about (an identity test against a literal): still the same class by every route
    if s.type.name == 'VERBATIM':
        return s.code
    return 'if 1 is 1:  # always\n' + '\n'.join('    ' + line for line in s.code.split('\n'))


CONVERTERS = {'default': None, 'identity': identity_converter, 'marker': marker_converter, 'guard': guard_converter, 'literal-test': literal_test_converter}


def program_scripts(tier):
    out, seen = [], set()

    def add(s):
        if s not in seen:
            seen.add(s)
            out.append(s)

    for s in programs.SPECIALS:
        add(s)
    # verbatim code whose meaning depends on how the definition is compiled (assert statements, __debug__, docstrings)
    add('```\nassert self._X[t] > 0\n```\nY = X')
    add('Y = X\n```\nif __debug__:\n    self._Y[t] = self._Y[t] + 1\n```')
    add("```\n'''a string statement'''\nself._Y[t] = self._X[t] * 2\n```")
    add('`assert self._Z[t-1] != self._Z[t], "no change"`\nY = Z[-1] + Z')
    for nm in ['X', 'x1', '_u', 'is_open', 'not_X', 'Ta']:
        for kind, sp in programs.S1_KINDS[:3]:
            for off, form in [(0, 'none'), (-1, 'plain'), (2, 'plus'), (-3, 'spaced')]:
                term = programs.Term(nm, kind, off, form, sp)
                for ctx in programs.S1_CTX:
                    add(programs.Program([programs.Eq(programs.Term('Y'), ctx, [term])]).script())
                if kind == 'v':
                    add(programs.Program([programs.Eq(programs.Term(nm, 'v', off, form), '2 * PH0', [programs.Term('W', 'v', -1)])]).script())
    for p in programs.s4(6 if tier == 'quick' else None):
        if p.consistent():
            add(p.script())
    return out


_SCRIPTS = None


def scripts(tier):
    global _SCRIPTS
    if _SCRIPTS is None:
        _SCRIPTS = program_scripts(tier)
    return _SCRIPTS


def attrs(M):
    return (list(M.ENDOGENOUS), list(M.EXOGENOUS), list(M.PARAMETERS), list(M.ERRORS), list(M.NAMES), list(M.CHECK), M.LAGS, M.LEADS)


def behaviour(M):
    try:
        return symrec.run_model(M, range(SPAN_LEN), T_EVAL)
    except OverflowError:
        return 'path-cap'


@robust(1, False)
def run_case(case):
    script = case['script']
    try:
        symbols = fsic.parse_model(script)
    except (ParserError, SymbolError, IndentationError):
        return [], False
    out = []
    label_index = any(isinstance(s.lags, str) or "['" in (s.code or '') or '["' in (s.code or '') for s in symbols)
    # 0. a converter whose output is not Python (for the first equation only; for every equation): the definition text does not
    #    execute, so build_model must not hand back a class either - whatever it returned would be another model than the text
    carriers0 = [x for x in symbols if x.equation is not None and x.code is not None and x.type.name in ('ENDOGENOUS', 'VERBATIM')]
    if carriers0:
        for which in ('first', 'all'):
            def broken(x, which=which):
                return 'this is not ( Python' if (which == 'all' or x is carriers0[0]) else x.code
            try:
                text = fsic.build_model_definition(symbols, converter=broken)
            except Exception as e:
                out.append(('broken-converter:definition:%s' % type(e).__name__, 'the text, with the output inserted as it is', repr(e)[:160], 'build_model_definition judged the converter output'))
                break
            try:
                exec_class(text)
                text_runs = True
            except SyntaxError:
                text_runs = False
            try:
                M = fsic.build_model(symbols, converter=broken)
                built = True
            except Exception as e:
                built = type(e).__name__
            if not text_runs and built is True:
                out.append(('broken-converter:class-returned', 'an exception (the text does not execute)', 'a class: CODE %s the text' % ('==' if getattr(M, 'CODE', None) == text else '!='),
                            'build_model returned a class although the definition with this converter\'s output does not execute (%s equation)' % which))
                break
    # 0b. a converter that itself raises (it validates its input and refuses a symbol): neither way of building returns anything
    if carriers0 and not out:
        for exc_cls in (SyntaxError, ValueError, KeyError):
            def refusing(x, exc_cls=exc_cls):
                if x is carriers0[-1]:
                    raise exc_cls('the converter refuses this symbol')
                return x.code
            got = []
            for fn in (fsic.build_model_definition, fsic.build_model):
                try:
                    fn(symbols, converter=refusing)
                    got.append('returned')
                except Exception as e:
                    got.append(type(e).__name__)
            if 'returned' in got:
                # (which exception class each of the two raises is not fixed by the statement: only that neither hands back a model)
                out.append(('raising-converter:%s' % exc_cls.__name__, 'both fail', got, 'a converter that refuses a symbol by raising did not stop build_model_definition / build_model'))
                break
    # 1. routes x type hints x converters, default options
    for cname, conv in CONVERTERS.items():
        if cname == 'guard' and any(s.code and '=' not in s.code for s in symbols if s.type.name == 'ENDOGENOUS'):
            continue
        ref_attrs = ref_beh = None
        for hints in (True, False):
            kw = dict(converter=conv, with_type_hints=hints)
            try:
                M1 = fsic.build_model(symbols, **kw)
                text = fsic.build_model_definition(symbols, **kw)
                M2 = exec_class(text)
                M3 = exec_class(M1.CODE)
            except Exception as e:
                out.append(('build-failed:%s:%s' % (cname, type(e).__name__), 'all routes build', repr(e)[:200], 'a build route failed for %r' % script))
                return out, True
            if M1.CODE != text:
                out.append(('CODE-attribute', 'CODE == build_model_definition text', 'differs', 'Model.CODE is not the definition text'))
            for route, M in (('build_model', M1), ('exec-definition', M2), ('exec-CODE', M3)):
                a = attrs(M)
                b = None if label_index else behaviour(M)
                if ref_attrs is None:
                    ref_attrs, ref_beh, ref_name = a, b, '%s/%s' % (route, hints)
                    continue
                if a != ref_attrs:
                    out.append(('attributes:%s' % cname, ref_attrs, a, 'variable lists / lag-lead lengths differ between %s and %s/%s' % (ref_name, route, hints)))
                    return out, True
                if b != ref_beh:
                    out.append(('behaviour:%s' % cname, str(ref_beh)[:300], str(b)[:300], 'evaluation differs between %s and %s/%s' % (ref_name, route, hints)))
                    return out, True
            try:
                M1(range(3))
            except Exception as e:
                out.append(('instantiate:%s' % type(e).__name__, 'instantiates', repr(e)[:200], 'built class cannot be instantiated'))
        if cname == 'default':
            default_beh, default_attrs = ref_beh, ref_attrs
        elif cname in ('identity', 'marker'):
            if ref_attrs != default_attrs or ref_beh != default_beh:
                out.append(('converter-semantics:%s' % cname, 'same as default converter', 'differs', 'a code-preserving converter changed the model'))
    # 2. converter output inserted verbatim, once per symbol carrying an equation, in symbol order
    text = fsic.build_model_definition(symbols, converter=marker_converter)
    carriers = [s for s in symbols if s.type.name in ('ENDOGENOUS', 'VERBATIM') and s.equation is not None and s.code is not None]
    lines = text.split('\n')
    at = 0
    for s in carriers:
        want = marker_converter(s).split('\n')
        found = None
        for i in range(at, len(lines)):
            if lines[i].strip() == want[0].strip() and lines[i].strip().startswith('# MARK<'):
                indent = lines[i][:len(lines[i]) - len(lines[i].lstrip())]
                if [indent + w if w.strip() else w for w in want] == [l if l.strip() else l.strip() for l in lines[i:i + len(want)]] or \
                        [indent + w for w in want] == lines[i:i + len(want)]:
                    found = i
                break
        if found is None:
            out.append(('converter-placement', want[:3], 'not found verbatim (modulo a uniform indent) in symbol order', 'converter output is not inserted verbatim / in symbol order'))
            break
        at = found + len(want)
    if text.count('# MARK<') != len(carriers):
        out.append(('converter-count', len(carriers), text.count('# MARK<'), 'converter must run once per symbol that carries an equation'))
    # ... verbatim also means: indentation the converter's output has of its own is kept (every line further in by the same amount),
    # and a line of a multi-line string literal that holds only blanks stays as it is
    if carriers and not out:
        base_indent = indent

        def indented_converter(x):
            return '\n'.join('    ' + w for w in marker_converter(x).split('\n'))

        def literal_converter(x):
            return marker_converter(x) + "\n_note = '''first\n   \n  third'''"
        for cname, conv in (('own-indentation', indented_converter), ('blank-line-in-literal', literal_converter)):
            try:
                text_i = fsic.build_model_definition(symbols, converter=conv)
            except Exception as e:
                out.append(('converter-verbatim:%s:%s' % (cname, type(e).__name__), 'the text', repr(e)[:120], 'build_model_definition judged the converter output'))
                break
            pos = 0
            for x in carriers:
                want_lines = conv(x).split('\n')
                block = '\n'.join((base_indent + w) if w.strip() else w for w in want_lines)
                block_all = '\n'.join(base_indent + w for w in want_lines)
                hit = max(text_i.find(block, pos), text_i.find(block_all, pos))
                if hit < 0:
                    out.append(('converter-verbatim:%s' % cname, want_lines[:4], 'not found with its own indentation / blank lines intact', 'converter output is altered on insertion (beyond a uniform indent)'))
                    break
                pos = hit + 1
            if out:
                break
    # 2a. ... and nothing but the converter's output: a converter may return an empty string (the statement contributes no code),
    #      a falsy or whitespace-only string, or a bare comment. The evaluation body is then exactly the non-empty outputs.
    for cname, conv in (('empty-for-first', lambda x: '' if (carriers and x is carriers[0]) else marker_converter(x)),
                        ('empty-for-all', lambda x: ''),
                        ('comment-only', lambda x: '# only a comment for %s' % x.name),
                        ('empty-for-last', lambda x: '' if (carriers and x is carriers[-1]) else marker_converter(x))):
        if not carriers:
            break
        try:
            text_c = fsic.build_model_definition(symbols, converter=conv)
        except Exception as e:
            out.append(('converter-output:%s:%s' % (cname, type(e).__name__), 'builds', repr(e)[:160], 'a converter that returns an empty / comment-only string is not supported'))
            continue
        body = text_c.split('"""')[-1]
        got_lines = [ln.strip() for ln in body.split('\n') if ln.strip()]
        want_lines = [ln.strip() for x in carriers for ln in conv(x).split('\n') if ln.strip()]
        got_lines = [ln for ln in got_lines if ln != 'pass']
        if got_lines != want_lines:
            out.append(('converter-output:%s' % cname, want_lines[:4], got_lines[:4], 'the evaluation body is not exactly what the converter returned'))
    # 2a'. ... verbatim also means: with the blank lines and newlines the converter returned, and also for a symbol whose own code is empty
    padded = lambda x: '\n# MARK<%s>\n%s\n\n' % (x.name, x.code)
    if carriers:
        text_p = fsic.build_model_definition(symbols, converter=padded)
        for x in carriers:
            want_chunk = textwrap.indent(padded(x), '        ')
            if want_chunk not in text_p:
                out.append(('converter-output:padded', want_chunk[:80], 'not found in the definition text', 'converter output with leading/trailing blank lines is not inserted as it is'))
                break
        victim = carriers[0]
        edited = [x._replace(code='') if x is victim else x for x in symbols]
        calls = []
        try:
            fsic.build_model_definition(edited, converter=lambda x: calls.append(x.name) or ('# from equation: %s' % x.equation))
            if len(calls) != len(carriers):
                out.append(('converter-count:empty-code', len(carriers), len(calls), 'a symbol that carries an equation (and an empty code string) must still be handed to the converter'))
        except Exception as e:
            out.append(('converter-output:empty-code:%s' % type(e).__name__, 'builds', repr(e)[:160], 'a symbol with an empty code string cannot be built with a custom converter'))
    # 2a''. CODE belongs to the class it was built for: building another model afterwards does not change it
    M_first = fsic.build_model(symbols)
    code_first = M_first.CODE
    fsic.build_model(fsic.parse_model('ZZ9 = ZZ9[-3] + QQ9'))
    if M_first.CODE != code_first or M_first.CODE != fsic.build_model_definition(symbols) or getattr(fsic.BaseModel, 'CODE', None) is not None:
        out.append(('CODE-attribute:after-another-build', 'unchanged, and none on BaseModel', [M_first.CODE == code_first, getattr(fsic.BaseModel, 'CODE', None) is None],
                    'building another model changed the CODE of a class built earlier (or left CODE on BaseModel)'))
    # 2b'. a converter is whatever callable the caller passes: also an object that happens to be falsy (an empty table of overrides)
    class TableConverter(dict):
        def __call__(self, x):
            return self.get(x.name, '# TABLE<%s>\n%s' % (x.name, x.code))
    if carriers:
        for table in (TableConverter(), TableConverter({carriers[0].name: '# OVERRIDE\npass'})):
            try:
                text_t = fsic.build_model_definition(symbols, converter=table)
            except Exception as e:
                out.append(('converter-object:%s' % type(e).__name__, 'builds', repr(e)[:160], 'a callable object as converter'))
                break
            if text_t.count('# TABLE<') + text_t.count('# OVERRIDE') != len(carriers):
                out.append(('converter-object:ignored', len(carriers), text_t.count('# TABLE<') + text_t.count('# OVERRIDE'), 'a converter object that is falsy (an empty dict subclass) was not used'))
                break
    # 2b''. lag and lead lengths against the symbols themselves (all build routes may agree with each other and still be wrong):
    #      the deepest lag / furthest lead over variables, parameters and errors alike; explicit values win over min_*
    series = [x for x in symbols if x.type.name in ('ENDOGENOUS', 'EXOGENOUS', 'PARAMETER', 'ERROR') and isinstance(x.lags, int) and isinstance(x.leads, int)]
    ref_lags = max([0] + [-x.lags for x in series])
    ref_leads = max([0] + [x.leads for x in series])
    for opt, want in ((dict(), (ref_lags, ref_leads)), (dict(min_lags=1, min_leads=2), (max(ref_lags, 1), max(ref_leads, 2))),
                      (dict(lags=1, min_lags=3, leads=1, min_leads=3), (1, 1)), (dict(leads=0, min_leads=2), (ref_lags, 0)),
                      # explicit lengths spelled as NumPy integers (what a table or np.max hands out) are explicit lengths
                      (dict(lags=np.int64(ref_lags + 2), leads=np.int32(ref_leads + 1)), (ref_lags + 2, ref_leads + 1)),
                      (dict(lags=np.int64(0), leads=np.int64(0), min_lags=np.int64(0)), (0, 0)),
                      (dict(min_lags=np.int64(ref_lags + 1), min_leads=np.int16(0)), (ref_lags + 1, ref_leads))):
        try:
            M_o = fsic.build_model(symbols, **opt)
        except Exception as e:
            out.append(('lengths:%s' % type(e).__name__, 'builds', repr(e)[:120], 'build_model with %r' % (opt,)))
            break
        if (M_o.LAGS, M_o.LEADS) != want:
            out.append(('lengths:reference', want, (M_o.LAGS, M_o.LEADS), 'LAGS/LEADS with %r differ from the symbols\' own lag and lead lengths' % (opt,)))
            break
    # 2c. symbols without an equation contribute variables but no code: switch each equation off in turn (equation=None, the
    #     rest of the symbol - its code included - left as it was) and the converter is no longer called for it
    for k, victim in enumerate(carriers[:3]):
        edited = [x._replace(equation=None) if x is victim else x for x in symbols]
        calls = []
        try:
            text_e = fsic.build_model_definition(edited, converter=lambda x: calls.append(x) or marker_converter(x))
            M_e = fsic.build_model(edited)
        except Exception as e:
            out.append(('no-equation-symbol:%s' % type(e).__name__, 'builds', repr(e)[:160], 'a symbol list with an equation switched off (equation=None) cannot be built'))
            break
        if len(calls) != len(carriers) - 1 or any(x is victim for x in calls):
            out.append(('no-equation-symbol:converter-called', len(carriers) - 1, len(calls), 'the converter ran for a symbol that carries no equation'))
            break
        if attrs(M_e)[:6] != attrs(fsic.build_model(symbols))[:6]:
            out.append(('no-equation-symbol:variables', attrs(fsic.build_model(symbols))[:6], attrs(M_e)[:6], 'a symbol without an equation must still contribute its variable'))
            break
    # 2d. a symbol list that is equal (==) to the parsed one builds the same class: types as plain integers (what a round
    #     trip through JSON / CSV gives back), fields as built by keyword
    plain = [type(x)(**dict(x._asdict(), type=int(x.type))) for x in symbols]
    if plain == symbols:
        try:
            if attrs(fsic.build_model(plain)) != attrs(fsic.build_model(symbols)) or attrs(exec_class(fsic.build_model_definition(plain, with_type_hints=False))) != attrs(fsic.build_model(symbols)):
                out.append(('equal-symbols:attributes', attrs(fsic.build_model(symbols)), attrs(fsic.build_model(plain)), 'a symbol list equal to the parsed one (types as plain integers) builds a different class'))
        except Exception as e:
            out.append(('equal-symbols:%s' % type(e).__name__, 'builds', repr(e)[:160], 'a symbol list equal to the parsed one cannot be built'))
    if not carriers:
        M0 = fsic.build_model(symbols)
        m0 = M0(range(4))
        before0 = [m0[n].tobytes() for n in m0.index]
        m0._evaluate(1)
        if [m0[n].tobytes() for n in m0.index] != before0:
            out.append(('no-equations-body', 'evaluation changes nothing', 'changed', 'a model without equations must have an empty evaluation body'))
    # 2b. the symbol list is the caller's: any order of it must be honoured (converter called in that order, code inserted in that order)
    if len(carriers) >= 2 or any(x.type.name == 'VERBATIM' for x in symbols):
        orders = [list(reversed(symbols)), [x for x in symbols if x.type.name == 'VERBATIM'] + [x for x in symbols if x.type.name != 'VERBATIM']]
        for order in orders:
            calls = []

            def logging_converter(x, calls=calls):
                calls.append(x)
                return marker_converter(x)
            text2 = fsic.build_model_definition(order, converter=logging_converter)
            want_calls = [x for x in order if x.type.name in ('ENDOGENOUS', 'VERBATIM') and x.equation is not None and x.code is not None]
            if [tuple(x) for x in calls] != [tuple(x) for x in want_calls]:
                out.append(('converter-call-order', [x.name for x in want_calls], [x.name for x in calls], 'converter is not called once per equation-carrying symbol in symbol order'))
                break
            marks = [ln.strip() for ln in text2.split('\n') if ln.strip().startswith('# MARK<')]
            if marks != ['# MARK<%s>' % x.name for x in want_calls]:
                out.append(('converter-insert-order', ['# MARK<%s>' % x.name for x in want_calls], marks, 'converter output is not inserted in symbol order'))
                break
    # 3. option lattice x routes (default converter, typed)
    depth = [0, 0]
    for s in symbols:
        if s.type.name in ('FUNCTION', 'KEYWORD', 'VERBATIM'):
            continue
        if isinstance(s.lags, int):
            depth[0] = max(depth[0], -s.lags)
        if isinstance(s.leads, int):
            depth[1] = max(depth[1], s.leads)
    for lags, leads, min_lags, min_leads in itertools.product((None, 0, 2), (None, 0, 2), (0, 1), (0, 1)):
        kw = dict(lags=lags, leads=leads, min_lags=min_lags, min_leads=min_leads)
        try:
            M1 = fsic.build_model(symbols, **kw)
            M2 = exec_class(fsic.build_model_definition(symbols, **kw))
            M3 = exec_class(M1.CODE)
        except Exception as e:
            out.append(('build-failed:options:%s' % type(e).__name__, 'builds', repr(e)[:200], 'build failed with %r' % kw))
            break
        if not (attrs(M1) == attrs(M2) == attrs(M3)):
            out.append(('attributes:options', attrs(M1), attrs(M2), 'routes disagree with %r' % kw))
            break
        if attrs(M1)[:6] != default_attrs[:6]:
            out.append(('attributes:options-change-lists', default_attrs[:6], attrs(M1)[:6], 'lag/lead options changed the variable lists'))
            break
    # 3b. building twice from the same symbols gives equal, independent classes (no state shared between builds)
    Ma, Mb = fsic.build_model(symbols), fsic.build_model(symbols)
    if attrs(Ma) != attrs(Mb) or Ma.CODE != Mb.CODE:
        out.append(('second-build-differs', attrs(Ma), attrs(Mb), 'building the same symbol list twice gives different classes'))
    else:
        for lst in ('ENDOGENOUS', 'EXOGENOUS', 'PARAMETERS', 'ERRORS', 'NAMES', 'CHECK'):
            getattr(Ma, lst).append('Zz_probe')
        if any('Zz_probe' in getattr(Mb, lst) for lst in ('ENDOGENOUS', 'EXOGENOUS', 'PARAMETERS', 'ERRORS', 'NAMES', 'CHECK')):
            out.append(('builds-share-lists', 'independent classes', 'shared', 'two classes built from the same symbols share a variable list'))
        if fsic.build_model(symbols).NAMES != default_attrs[4]:
            out.append(('build-after-mutation-differs', default_attrs[4], fsic.build_model(symbols).NAMES, 'mutating one built class changed later builds'))
    # 4. trivial models solve trivially
    if not symbols:
        M = fsic.build_model([])
        m = M(range(5))
        r = m.solve()
        if list(r[2]) != [True] * 5:
            out.append(('empty-model-solve', [True] * 5, list(r[2]), 'an empty symbol list must give a model that solves trivially'))
    return out, bool(symbols)


def blocks(tier, seed):
    nb = 64 if tier == 'quick' else 128
    return [{'b': b, 'nb': nb} for b in range(nb)]


def run_block(block, tier, seed):
    acc = Acc()
    for i, script in enumerate(scripts(tier)):
        if i % block['nb'] != block['b']:
            continue
        case = {'script': script}
        acc.evaluations += 1
        try:
            with guard(60):
                v, nontrivial = run_case(case)
        except CaseTimeout:
            acc.violation('timeout', case, 'termination', 'timeout')
            continue
        acc.nontrivial += bool(nontrivial)
        for key, exp, obs, what in v:
            acc.violation(key, case, exp, obs, what)
        if i == block['b']:
            acc.sample(case, limit=1)
    return acc


def run_one(case):
    return run_case(case)[0]


def finalize(acc, tier, seed):
    return {'programs': len(scripts(tier)), 'converters': list(CONVERTERS), 'routes': ['build_model', 'exec(build_model_definition)', 'exec(Model.CODE)']}
