# -*- coding: utf-8 -*-
"""C05 - solve() equals the ordered sequence of single-period solves; failures are contained.

Deciding step: exhaustive enumeration of (span type) x (start, end) over labels U {None, absent label} x one
fault of each kind at every period of the range x errors x failures x option sets; each case is executed on
model A with solve() and on a twin B with a loop of solve_t over the reference range; return triple,
exception, complete observation and the evaluation/hook call log must be identical, and the containment
oracle (later periods untouched, KeyError/SolutionError rejections change nothing) is evaluated directly.
"""
import itertools

import numpy as np
import pandas as pd

import fsic
from fsic.extensions import AliasMixin, ProgressBarMixin, TracerMixin

from .. import refsolve, scripted, spans
from ..core.observe import observe, diff_obs
from ..core.runner import Acc, guard, CaseTimeout, robust

ID = 'C05'
LEVEL = 'model_checking'
TECHNIQUE = 'exhaustive differential exploration: solve() vs ordered solve_t loop on a twin, single fault injected at every period, every (start,end) pair, every span type'
RULE = ('span types x span length (4 quick / 6 thorough) x every ordered (start,end) over labels+None+absent x fault in '
        '{none, exception, silent non-finite, warning non-finite, non-convergence} at every period of the range x errors x failures x '
        'min_iter in {0, 3 = max_iter} x catch_first_error, each compared with the twin loop AND with the statuses the reference state machine prescribes; plus solve_period(label) vs solve_t(pos) for every label, ambiguous year label on a quarterly index, empty span. '
        'states = distinct final observations, transitions = solver calls executed, traces = cases compared with the twin loop; '
        'non-trivial = at least one period solved or a rejection checked'
        ' The pairs also under an ambient warnings filter that turns warnings into errors (errors in skip/ignore/replace).'
        ' Pairs with offsets 1,-1,2 and with a caller keyword for the hooks (call logs compared); a NaN replaced by the offset copy through all three entry points; tuple/frozenset absent labels on NumPy spans too.'
        ' Second-solve scenario with a NaN present on entry and produced again by every pass; the unchecked endogenous variable is seeded by the offset copy. Span types include a stepped range.')
ASSUMPTIONS = [
    'solve_t itself is judged by C02/C06; here it is the reference for solve()',
    'labels of pandas indexes are compared with ==',
]

FAULTS = ['none', 'exc', 'nans', 'nanw', 'nonconv', 'nans-last', 'nanw-last']   # '-last': the fault arrives on pass 3 = max_iter
NORMAL = [('moved', 0), ('conv', 0), ('conv', 0)]  # converges at pass 2, or at pass 3 when min_iter == max_iter == 3


class LScripted(scripted.ScriptedBase, fsic.BaseModel):
    LAGS = 1
    LEADS = 1


class MScripted(ProgressBarMixin, AliasMixin, TracerMixin, scripted.ScriptedBase, fsic.BaseModel):
    # every mixin of the library stacked on the model, none of them in use ("by default, behaviour is unchanged")
    LAGS = 1
    LEADS = 1
    ALIASES = {'alpha': 'A'}


_BUILD_CLS = [None]


def build(kind, n, fpos, fault):
    span, labels = spans.make(kind, n)
    scripts = {p: list(NORMAL) for p in range(n)}
    if fault == 'nonconv':
        scripts[fpos] = [('moved', 0)] * 8
    elif fault.endswith('-last'):
        scripts[fpos] = [('moved', 0), ('moved', 0), (fault[:-5], 0)]
    elif fault != 'none':
        scripts[fpos] = [('moved', 0), (fault, 0)]
    m = scripted.make_scripted(span, scripts, cls=_BUILD_CLS[0] or LScripted)
    m.A = [float(i) for i in range(n)]
    m.B = [-float(i) for i in range(n)]
    m.X = 1.0
    return m, labels


def blocks(tier, seed):
    n = 4 if tier == 'quick' else 6
    out = []
    for kind in spans.SPAN_TYPES:
        out.append({'kind': 'pairs', 'span': kind, 'n': n})
    out.append({'kind': 'period'})
    out.append({'kind': 'misc'})
    out.append({'kind': 'second-solve'})
    for i in range(len(PARSER_SCRIPTS)):
        for kind in ('range', 'list_str', 'pd_year', 'np_int'):
            out.append({'kind': 'parser', 'i': i, 'span': kind})
    return out


def label_of(labels, i, kind):
    if i is None:
        return None
    if i == 'absent':
        return spans.absent_label(kind)
    if i == 'absent-tuple':
        return (labels[0],)  # hashable, not a scalar, not in the span: an unknown label like any other
    if i == 'absent-frozenset':
        return frozenset([labels[0]])
    return labels[i]


@robust(1, 0)
def run_pair_case(case):
    _BUILD_CLS[0] = MScripted if case.get('stacked') else None
    try:
        return _run_pair_case(case)
    finally:
        _BUILD_CLS[0] = None


def _run_pair_case(case):
    kind, n, si, ei, fpos, fault = case['span'], case['n'], case['si'], case['ei'], case['fpos'], case['fault']
    kw = dict(max_iter=3, min_iter=case['min_iter'], tol=scripted.TOL, errors=case['errors'], failures=case['failures'],
              catch_first_error=case.get('cfe', True))
    kw.update(case.get('extra') or {})   # (an offset, a keyword of the caller's own for the hooks: passed to solve() and to every solve_t of the loop alike)
    a, labels = build(kind, n, fpos, fault)
    b, _ = build(kind, n, fpos, fault)
    init = observe(a)
    start, end = label_of(labels, si, kind), label_of(labels, ei, kind)
    out = []
    # (`ambient`: the warnings filter of the calling process, e.g. `python -W error`; the loop of single-period solves runs under the usual one)
    ra = refsolve.call_outcome(a.solve, start=start, end=end, _ambient=case.get('ambient', 'ignore'), **kw)
    if str(si).startswith('absent') or str(ei).startswith('absent'):
        if ra[0] != 'KeyError':
            out.append(('unknown-label:not-KeyError', 'KeyError', ra[0], 'unknown start/end label must raise KeyError'))
        if observe(a) != init:
            out.append(('unknown-label:state-changed', 'unchanged', diff_obs(init, observe(a)), 'KeyError must come before anything is solved'))
        return out, 0
    s0 = 1 if si is None else si
    e0 = n - 2 if ei is None else ei
    rng = list(range(s0, e0 + 1))
    rb = ([], [], [])
    exc = None
    for t in rng:
        r = refsolve.call_outcome(b.solve_t, t, **kw)
        if r[0] not in ('True', 'False'):
            exc = r[:2]
            break
        rb[0].append(labels[t])
        rb[1].append(t)
        rb[2].append(r[0] == 'True')
    if exc is not None:
        exp = exc
        obs = ra[:2]
    else:
        exp = ('value', 'none', rb)
        got = ra[2]
        obs = ('value', 'none', (list(got[0]), [int(x) for x in got[1]], [bool(x) for x in got[2]])) if ra[0] == 'value' else ra[:2]
        if ra[0] == 'value':
            try:
                same_labels = len(got[0]) == len(rb[0]) and all(bool(x == y) for x, y in zip(got[0], rb[0]))
            except Exception:
                same_labels = False
            exp = ('value', 'none', (rb[1], rb[2]))
            obs = ('value', 'none', ([int(x) for x in got[1]], [bool(x) for x in got[2]]))
            if not same_labels:
                out.append(('triple:labels', [repr(x) for x in rb[0]], [repr(x) for x in got[0]], 'returned labels differ from the periods visited'))
    if exp != obs:
        out.append(('differential:return:%s' % (ra[0],), exp, obs, 'solve() return/exception differs from the loop of single-period solves'))
    oa, ob = observe(a), observe(b)
    if oa != ob:
        out.append(('differential:state', 'equal to the solve_t loop', diff_obs(ob, oa), 'solve() leaves a different state than the loop of single-period solves'))
    # the statuses the policies prescribe, stated directly (reference state machine of the single-period solver, never the code's own solve_t)
    if not out and repr(a.sc_log()) != repr(b.sc_log()):   # (repr: a NaN in the log equals itself)
        out.append(('differential:calls', b.sc_log()[:6], a.sc_log()[:6], 'solve() calls hooks and passes differently from the loop of single-period solves'))
    if not out and all(1 <= p <= n - 2 for p in rng) and not case.get('extra'):
        fresh0, _ = build(kind, n, fpos, fault)
        opts = dict(minIter=case['min_iter'], maxIter=3, errors=case['errors'], failures=case['failures'], cfe=case.get('cfe', True), pre='finite', preHook='none', postHook='none')
        stopped = False
        for p in range(n):
            if p not in rng or stopped:
                want = (str(fresh0.status[p]), int(fresh0.iterations[p]))
            else:
                if p == fpos and fault == 'nonconv':
                    hist = ['moved'] * 8
                elif p == fpos and fault.endswith('-last'):
                    hist = ['moved', 'moved', fault[:-5]]
                elif p == fpos and fault != 'none':
                    hist = ['moved', fault]
                else:
                    hist = [o for o, _ in NORMAL]
                e = refsolve.ref_trace(opts, hist + ['moved'] * 8)
                want = (e['status'], e['iters'] if e['status'] != '-' else int(fresh0.iterations[p]))
                if e['result'] not in ('True', 'False'):
                    stopped = True
                    if ra[0] != e['result']:
                        out.append(('prescribed:exception', e['result'], ra[0], 'solve() must stop with the exception the policy prescribes for period %d' % p))
            got = (str(a.status[p]), int(a.iterations[p]))
            if got != want:
                out.append(('prescribed:status', [p, want], [p, got], 'a period does not carry the status / iteration count its policy prescribes'))
                break
        if not stopped and ra[0] != 'value':
            out.append(('prescribed:exception', 'value', ra[0], 'solve() raised although no period prescribes an exception'))
    # containment, stated directly: periods after the failing one are untouched
    if exc is not None:
        failing = rng[len(rb[1])]
        if fault == 'exc' and case['errors'] == 'raise' and failing == fpos and tuple(exc) == ('SolutionError', 'exception') and str(a.status[failing]) != 'E':
            out.append(('containment:failing-period-status', 'E', str(a.status[failing]), 'the failing period does not carry the status its policy prescribes'))
        for name in ('A', 'B', 'C', 'status', 'iterations'):
            for p in range(n):
                if p > failing or p < s0:
                    fresh, _ = build(kind, n, fpos, fault)
                    if a[name][p] != fresh[name][p] and not (a[name][p] != a[name][p] and fresh[name][p] != fresh[name][p]):
                        out.append(('containment:later-period-touched', 'untouched', [name, p], 'a period outside the completed range was modified'))
                        return out, len(rng)
    return out, len(rng)


def run_pairs(block, tier, acc):
    kind, n = block['span'], block['n']
    n = min(n, spans.MAX_LEN.get(kind, n))
    choices = [None] + list(range(n)) + ['absent'] + ([] if kind == 'list_mixed' else ['absent-tuple', 'absent-frozenset'])
    seen = set()
    _, probe_labels = spans.make(kind, n)
    for si, ei in itertools.product(choices, choices):
        if any(isinstance(i, int) and probe_labels[i] is None for i in (si, ei)):
            continue  # the label None cannot be passed as start/end: it *means* "use the default"
        s0 = 1 if (si is None or str(si).startswith('absent')) else si
        e0 = n - 2 if (ei is None or str(ei).startswith('absent')) else ei
        rng = list(range(s0, e0 + 1))
        fault_places = [(None, 'none')] + [(p, f) for p in rng for f in FAULTS[1:]]
        if str(si).startswith('absent') or str(ei).startswith('absent'):
            fault_places = [(None, 'none')]
        # the same pair on a model class that stacks every mixin of the library (no fault, and the first fault place)
        for fpos, fault in fault_places[:2]:
            case = dict(kind='pairs', span=kind, n=n, si=si, ei=ei, fpos=fpos, fault=fault, errors='raise', failures='raise', min_iter=0, cfe=True, stacked=True)
            acc.evaluations += 1
            try:
                with guard(10):
                    v, calls = run_pair_case(case)
            except CaseTimeout:
                acc.violation('timeout', case, 'termination', 'timeout')
                continue
            acc.traces += 1
            acc.transitions += calls + 1
            acc.nontrivial += 1 if (calls or str(si).startswith('absent') or str(ei).startswith('absent')) else 0
            for key, exp, obs, what in v:
                acc.violation(key + ':stacked-mixins', case, exp, obs, what)
        # the same pair with an offset (a period whose source lies outside the span stops the run there: the periods before it stay solved)
        # and with a keyword of the caller's own that the hooks receive
        for fpos, fault in fault_places[:2]:
            for extra in ({'offset': 1}, {'offset': -1}, {'offset': 2}, {'marker': 'from the caller'}):
                case = dict(kind='pairs', span=kind, n=n, si=si, ei=ei, fpos=fpos, fault=fault, errors='raise', failures='raise', min_iter=0, cfe=True, extra=extra)
                acc.evaluations += 1
                try:
                    with guard(10):
                        v, calls = run_pair_case(case)
                except CaseTimeout:
                    acc.violation('timeout', case, 'termination', 'timeout')
                    continue
                acc.traces += 1
                acc.transitions += calls + 1
                acc.nontrivial += 1 if (calls or str(si).startswith('absent') or str(ei).startswith('absent')) else 0
                for key, exp, obs, what in v:
                    acc.violation(key + ':' + sorted(extra)[0], case, exp, obs, what)
        # the same pair called from a process whose own warnings filter turns warnings into exceptions (the policies decide, not the caller's filter)
        for fpos, fault in fault_places:
            for errors in ('skip', 'ignore', 'replace'):
                case = dict(kind='pairs', span=kind, n=n, si=si, ei=ei, fpos=fpos, fault=fault, errors=errors, failures='ignore', min_iter=0, cfe=True, ambient='error')
                acc.evaluations += 1
                try:
                    with guard(10):
                        v, calls = run_pair_case(case)
                except CaseTimeout:
                    acc.violation('timeout', case, 'termination', 'timeout')
                    continue
                acc.traces += 1
                acc.transitions += calls + 1
                acc.nontrivial += 1 if (calls or str(si).startswith('absent') or str(ei).startswith('absent')) else 0
                for key, exp, obs, what in v:
                    acc.violation(key + ':ambient-warnings-filter', case, exp, obs, what)
        for fpos, fault in fault_places:
            for errors in ('raise', 'skip', 'ignore', 'replace'):
                for failures in ('raise', 'ignore'):
                    for min_iter, cfe in ((0, True), (3, True), (0, False), (3, False)):  # 3 == max_iter: a fixed number of passes; a fault at pass 2 comes before min_iter
                        if cfe is False and (fault in ('none', 'nonconv') or errors != 'raise' or fault.endswith('-last')):
                            continue
                        case = dict(kind='pairs', span=kind, n=n, si=si, ei=ei, fpos=fpos, fault=fault, errors=errors,
                                    failures=failures, min_iter=min_iter, cfe=cfe)
                        acc.evaluations += 1
                        try:
                            with guard(10):
                                v, calls = run_pair_case(case)
                        except CaseTimeout:
                            acc.violation('timeout', case, 'termination', 'timeout')
                            continue
                        acc.traces += 1
                        acc.transitions += calls + 1
                        acc.nontrivial += 1 if (calls or str(si).startswith('absent') or str(ei).startswith('absent')) else 0
                        for key, exp, obs, what in v:
                            acc.violation(key + ':' + ('numpy-span' if kind.startswith('np_') else 'span'), case, exp, obs, what)
                            seen.add(key)
        acc.outcome((kind, 'pair-done'))
    acc.states += len(choices) ** 2
    acc.sample({'span': kind, 'n': n, 'start': 1, 'end': 2, 'fault': 'exc@1', 'errors': 'raise'}, limit=2)


@robust()
def run_period_case(case):
    kind, n, pos, fault = case['span'], case['n'], case['pos'], case['fault']
    kw = dict(max_iter=3, tol=scripted.TOL, errors=case['errors'], failures='ignore')
    kw.update(case.get('extra') or {})
    a, labels = build(kind, n, pos, fault)
    b, _ = build(kind, n, pos, fault)
    ra = refsolve.call_outcome(a.solve_period, labels[pos], **kw)[:2]
    rb = refsolve.call_outcome(b.solve_t, pos, **kw)[:2]
    out = []
    if ra != rb:
        out.append(('solve_period:return', rb, ra, 'solve_period(label) differs from solve_t(position)'))
    if observe(a) != observe(b):
        out.append(('solve_period:state', 'equal', diff_obs(observe(b), observe(a)), 'solve_period(label) leaves a different state than solve_t(position)'))
    if repr(a.sc_log()) != repr(b.sc_log()):
        out.append(('solve_period:calls', b.sc_log()[:6], a.sc_log()[:6], 'hooks and passes are not called as by solve_t(position) (keywords of the caller included)'))
    return out


def run_period(acc, tier):
    n = 4
    for kind in spans.SPAN_TYPES:
        for pos in range(n):
            for fault in FAULTS:
                for errors, extra in (('raise', None), ('skip', None), ('raise', {'catch_first_error': False}), ('raise', {'tol': 0.125}),
                                      ('raise', {'min_iter': 3}), ('raise', {'max_iter': 1}), ('ignore', {'failures': 'raise'}), ('raise', {'offset': -1}), ('raise', {'marker': 'from the caller'})):
                    case = dict(kind='period', span=kind, n=n, pos=pos, fault=fault, errors=errors, extra=extra)
                    acc.evaluations += 1
                    acc.nontrivial += 1
                    acc.traces += 1
                    acc.transitions += 2
                    for key, exp, obs, what in run_period_case(case):
                        acc.violation(key + ':' + ('numpy-span' if kind.startswith('np_') else 'span'), case, exp, obs, what)
        # absent label
        a, labels = build(kind, n, None, 'none')
        init = observe(a)
        r = refsolve.call_outcome(a.solve_period, spans.absent_label(kind), max_iter=3, tol=scripted.TOL)
        acc.evaluations += 1
        acc.nontrivial += 1
        if r[0] != 'KeyError' or observe(a) != init:
            acc.violation('solve_period:absent-label', {'kind': 'period-absent', 'span': kind}, 'KeyError, unchanged', r[0], 'absent label')


@robust()
def run_misc_case(case):
    what = case['what']
    out = []
    if what == 'empty-span':
        for span in ([], range(0), np.array([]), pd.Index([])):
            m = scripted.make_scripted(span, {}, cls=scripted.Scripted)
            r = refsolve.call_outcome(m.solve)
            if r[0] != 'SolutionError':
                out.append(('empty-span', 'SolutionError', r[0], 'solve() on an empty span must raise SolutionError'))
    elif what == 'rerun-after-fault-with-offset':
        # a period left with NaN by an earlier failed run is solved again with offset=-1: the copy from the period before replaces the
        # NaN before anything is judged, so the run is served (solve() and the single-period solver alike), for every start
        for entry in ('solve', 'solve_t', 'solve_period'):
            for k in (1, 2):
                m = scripted.make_scripted(list(range(4)), {p: list(NORMAL) for p in range(4)}, cls=scripted.Scripted)
                m.A[k] = float('nan')
                m.C = [7.0 * (p + 1) for p in range(4)]   # (distinct values per period in the endogenous variable that is not checked)
                if entry == 'solve':
                    r = refsolve.call_outcome(m.solve, start=k, tol=scripted.TOL, offset=-1)
                elif entry == 'solve_t':
                    r = refsolve.call_outcome(m.solve_t, k, tol=scripted.TOL, offset=-1)
                else:
                    r = refsolve.call_outcome(m.solve_period, k, tol=scripted.TOL, offset=-1)
                if r[0] not in ('value', 'True') or str(m.status[k]) != '.' or not np.isfinite(m.A[k]):
                    out.append(('rerun-after-fault-with-offset:%s' % entry, 'solved', [r[0], str(m.status[k])], 'a NaN that the offset copy replaces must not stop the run'))
                else:
                    # C is endogenous but not a check variable and grows by 100 per pass from the value it is seeded with: the copy covers it too
                    want_c = 7.0 * k + 100.0 * int(m.iterations[k])
                    if float(m.C[k]) != want_c:
                        out.append(('offset-seeds-every-endogenous-variable:%s' % entry, want_c, float(m.C[k]), 'an endogenous variable that is not a check variable was not seeded from the offset period'))
    elif what == 'ambiguous-year':
        # a year on a quarterly PeriodIndex resolves to a slice, not a single position
        for arg in ('start', 'end', 'period', 'valid-start+end', 'start+valid-end', 'start+end'):
            span = pd.period_range('1999Q1', periods=12, freq='Q')
            m = scripted.make_scripted(span, {p: list(NORMAL) for p in range(12)}, cls=scripted.Scripted)
            init = observe(m)
            if arg == 'period':
                r = refsolve.call_outcome(m.solve_period, '2000', tol=scripted.TOL)
            elif arg == 'valid-start+end':
                r = refsolve.call_outcome(m.solve, tol=scripted.TOL, start=span[1], end='2000')
            elif arg == 'start+valid-end':
                r = refsolve.call_outcome(m.solve, tol=scripted.TOL, start='2000', end=span[10])
            elif arg == 'start+end':
                r = refsolve.call_outcome(m.solve, tol=scripted.TOL, start='2000', end='2001')
            else:
                r = refsolve.call_outcome(m.solve, tol=scripted.TOL, **{arg: '2000'})
            if r[0] != 'KeyError':
                out.append(('ambiguous-label:%s' % arg, 'KeyError', r[0], 'a label that does not resolve to a single position must raise KeyError'))
            if observe(m) != init:
                out.append(('ambiguous-label:state:%s' % arg, 'unchanged', 'changed', 'KeyError must come before anything is solved'))
    elif what == 'short-span':
        # a non-empty span that is too short for the lags and leads: the default range is empty - solve() visits nothing, like an empty loop
        for kind in ('range', 'list_str', 'pd_year', 'np_int'):
            for n in (2,):  # one lag + one lead: with 2 periods both default bounds exist, in reversed order
                m, labels = build(kind, n, None, 'none')
                init = observe(m)
                r = refsolve.call_outcome(m.solve, tol=scripted.TOL)
                got = (list(r[2][0]), list(r[2][1]), list(r[2][2])) if r[0] == 'value' else r[0]
                if got != ([], [], []) or observe(m) != init:
                    out.append(('short-span:default-range', [[], [], []], repr(got)[:120], 'solve() on a %d-period span with one lag and one lead must visit nothing' % n))
    elif what == 'duplicate-label':
        # a label that matches several positions of a pandas Index does not resolve to a single position
        for arg in ('start', 'end', 'period'):
            span = pd.Index(['a', 'b', 'a', 'c', 'd'])
            m = scripted.make_scripted(span, {p: list(NORMAL) for p in range(5)}, cls=scripted.Scripted)
            init = observe(m)
            if arg == 'period':
                r = refsolve.call_outcome(m.solve_period, 'a', tol=scripted.TOL)
            else:
                r = refsolve.call_outcome(m.solve, tol=scripted.TOL, **{arg: 'a'})
            if r[0] != 'KeyError':
                out.append(('duplicate-label:%s' % arg, 'KeyError', r[0], 'a label matching several positions must raise KeyError'))
            if observe(m) != init:
                out.append(('duplicate-label:state:%s' % arg, 'unchanged', 'changed', 'KeyError must come before anything is solved'))
    elif what == 'defaults':
        # every option left at its default: the three entry points still agree (a period that needs more passes than the default max_iter)
        outcomes = {}
        for entry in ('solve_t', 'solve_period', 'solve'):
            m = scripted.make_scripted(list(range(50, 53)), {1: [('moved', 0)] * 120 + [('conv', 1)] * 4}, cls=scripted.Scripted)
            m.A = [1.0, 2.0, 3.0]
            m.B = [-1.0, -2.0, -3.0]
            if entry == 'solve_t':
                r = refsolve.call_outcome(m.solve_t, 1)
            elif entry == 'solve_period':
                r = refsolve.call_outcome(m.solve_period, 51)
            else:
                r = refsolve.call_outcome(m.solve, start=51, end=51)
            outcomes[entry] = (r[0], str(m.status[1]), int(m.iterations[1]), m.sc_count('eval'))
        if len(set(outcomes.values())) != 1:
            out.append(('defaults:entry-points-differ', outcomes['solve_t'], outcomes, 'with every option left at its default solve_t, solve_period and solve do not do the same thing'))
    elif what == 'repeated-label-inside':
        # a label that occurs twice strictly inside the solved range (plain list span): solve() visits POSITIONS start..end, each once
        span = ['a', 'b', 'b', 'c', 'd', 'e']
        m = scripted.make_scripted(span, {p: list(NORMAL) for p in range(6)}, cls=LScripted)
        twin = scripted.make_scripted(list(span), {p: list(NORMAL) for p in range(6)}, cls=LScripted)
        for o in (m, twin):
            o.A = [float(i) for i in range(6)]
            o.B = [-float(i) for i in range(6)]
        r = refsolve.call_outcome(m.solve, end='c', tol=scripted.TOL, max_iter=3)
        for t in (1, 2, 3):
            refsolve.call_outcome(twin.solve_t, t, tol=scripted.TOL, max_iter=3)
        if observe(m) != observe(twin):
            out.append(('repeated-label-inside:state', 'as the loop over positions 1..3', diff_obs(observe(twin), observe(m))[:3], 'solve() over a range that contains a repeated label did not visit each position once'))
        elif r[0] != 'value' or [int(x) for x in r[2][1]] != [1, 2, 3]:
            out.append(('repeated-label-inside:return', [1, 2, 3], repr(r[2])[:120] if r[0] == 'value' else r[0], 'returned positions'))
    elif what == 'infeasible-explicit':
        # an explicit start before the first solvable period / end after the last one: IndexError for that period, which stays untouched
        for si, ei in ((0, 2), (0, 0), (1, 3), (3, 3), (0, 3)):
            m, labels = build('range', 4, None, 'none')
            twin, _ = build('range', 4, None, 'none')
            r = refsolve.call_outcome(m.solve, start=labels[si], end=labels[ei], tol=scripted.TOL, max_iter=3)
            for t in range(si, ei + 1):
                if not (1 <= t <= 2):
                    break  # the loop stops at the first period that cannot accommodate the lag / lead, before touching it
                refsolve.call_outcome(twin.solve_t, t, tol=scripted.TOL, max_iter=3)
            if r[0] != 'IndexError' or observe(m) != observe(twin):
                out.append(('infeasible-explicit', 'IndexError at the first infeasible period, which stays untouched', [r[0], diff_obs(observe(twin), observe(m))[:2]],
                            'solve(start=%r, end=%r) on a model with one lag and one lead' % (labels[si], labels[ei])))
    elif what == 'min-gt-max':
        m, labels = build('range', 4, None, 'none')
        init = observe(m)
        r = refsolve.call_outcome(m.solve, min_iter=3, max_iter=2)
        if r[0] != 'ValueError' or observe(m) != init:
            out.append(('min-gt-max', 'ValueError, unchanged', r[0], 'min_iter > max_iter'))
    return out


PARSER_SCRIPTS = [
    'Y = 0.5 * Y[-1] + X[1] + 0.25 * Y',
    'C = {a} * Y[-1] + G\nY = C + 0.5 * Y[1]',
    'Y = 1 / (X - 2)\nZ = Y[-1] + Z[-2]',
]


@robust()
def run_parser_case(case):
    cls = fsic.build_model(fsic.parse_model(case['script']))
    kind, n = case['span'], case['n']

    def mk():
        span, labels = spans.make(kind, n)
        m = cls(span)
        for j, name in enumerate(m.names):
            m[name] = [0.5 + 0.25 * j + 0.125 * k for k in range(n)]
        if 'X' in m.names:
            m.X = [float(k) for k in range(n)]
        return m, labels

    a, labels = mk()
    b, _ = mk()
    si, ei = case['si'], case['ei']
    kw = dict(max_iter=case['max_iter'], tol=1e-6, errors=case['errors'], failures=case['failures'], offset=case['offset'])
    ra = refsolve.call_outcome(a.solve, start=label_of(labels, si, kind), end=label_of(labels, ei, kind), **kw)
    s0 = cls.LAGS if si is None else si
    e0 = n - 1 - cls.LEADS if ei is None else ei
    out = []
    exc = None
    flags = []
    for t in range(s0, e0 + 1):
        r = refsolve.call_outcome(b.solve_t, t, **kw)
        if r[0] not in ('True', 'False'):
            exc = r[:2]
            break
        flags.append(r[0] == 'True')
    exp = exc if exc else ('value', 'none', flags)
    obs = ra[:2] if ra[0] != 'value' else ('value', 'none', [bool(x) for x in ra[2][2]])
    if exp != obs:
        out.append(('parser:return', exp, obs, 'solve() differs from the loop of solve_t on a parser-built model'))
    if observe(a) != observe(b):
        out.append(('parser:state', 'equal', diff_obs(observe(b), observe(a)), 'state differs from the loop of solve_t'))
    return out


def run_parser(acc, tier, block):
    n = 6
    for script in [PARSER_SCRIPTS[block['i']]]:
        for kind in [block['span']]:
            for si, ei in itertools.product([None] + list(range(n)), repeat=2):
                for max_iter in (2, 50):
                    for errors in ('raise', 'skip', 'ignore'):
                        for failures in ('raise', 'ignore'):
                            for offset in (0, -1):
                                case = dict(kind='parser', script=script, span=kind, n=n, si=si, ei=ei, max_iter=max_iter,
                                            errors=errors, failures=failures, offset=offset)
                                acc.evaluations += 1
                                acc.nontrivial += 1
                                acc.traces += 1
                                for key, exp, obs, what in run_parser_case(case):
                                    acc.violation(key, case, exp, obs, what)


@robust()
def run_second_solve_case(case):
    """A model that has been solved once is solved again, and the second run fails at one period in a way that does not stamp
    the period (a failing hook, a pre-existing non-finite value under 'raise', an exception in a pass under a policy other than
    'raise'): earlier periods carry the new solution, the failing period keeps the status and iteration count it had, later
    periods are untouched."""
    scen, fpos, errors, failures, entry = case['scenario'], case['fpos'], case['errors'], case['failures'], case['entry']
    n = 5
    first = [('moved', 0), ('conv', 0)]
    second = {p: [('moved', 0), ('moved', 0), ('conv', 0)] for p in range(n)}
    if scen == 'exc-in-pass':
        second[fpos] = [('moved', 0), ('exc', 0)]
    if scen == 'pre-existing-nan-persisting':
        second[fpos] = [('nans', 0), ('nans', 0), ('nans', 0)]   # the NaN the period holds on entry is produced again by every pass
    m = scripted.make_scripted(list(range(10, 10 + n)), {p: first + second[p] for p in range(n)}, cls=LScripted)
    m.A = [float(i) for i in range(n)]
    m.B = [-float(i) for i in range(n)]
    kw = dict(max_iter=3, tol=scripted.TOL, errors=errors, failures=failures)
    r0 = refsolve.call_outcome(m.solve, **kw)
    if r0[0] != 'value' or [str(x) for x in m.status] != ['-', '.', '.', '.', '-']:
        return [('second-solve:setup', 'a clean first solve', [r0[0], m.status.tolist()], 'the scenario could not be set up')]
    if scen == 'pre-hook':
        m.__dict__['_sc_pre_exc'] = True if fpos == 1 else False
        if fpos != 1:
            return []
    elif scen == 'post-hook':
        m.__dict__['_sc_post_exc'] = True if fpos == 1 else False
        if fpos != 1:
            return []
    elif scen == 'pre-existing-nan':
        m.A[fpos] = np.nan
    elif scen == 'pre-existing-nan-persisting':
        m.B[fpos] = np.nan
    before = [(str(m.status[p]), int(m.iterations[p])) for p in range(n)]
    if entry == 'solve':
        r = refsolve.call_outcome(m.solve, **kw)
    else:
        r = None
        for p in (1, 2, 3):
            r = refsolve.call_outcome(m.solve_t if entry == 'solve_t' else m.solve_period, p if entry == 'solve_t' else 10 + p, **kw)
            if r[0] not in ('True', 'False'):
                break
    opts = dict(minIter=0, maxIter=3, errors=errors, failures=failures, cfe=True, pre='finite', preHook='none', postHook='none')
    out, stopped = [], False
    for p in range(n):
        want = before[p]
        if p in (1, 2, 3) and not stopped:
            o = dict(opts)
            if scen in ('pre-existing-nan', 'pre-existing-nan-persisting') and p == fpos:
                o['pre'] = 'nonfinite'
            if scen == 'pre-hook':
                o['preHook'] = 'exc'
            if scen == 'post-hook':
                o['postHook'] = 'exc'
            e = refsolve.ref_trace(o, [x for x, _ in second[p]] + ['moved'] * 8)
            if e['status'] != '-':
                want = (e['status'], e['iters'])
            if e['result'] not in ('True', 'False'):
                stopped = True
                if r[0] != e['result']:
                    out.append(('second-solve:exception', e['result'], r[0], 'the second run must stop with the exception prescribed for period %d' % p))
        got = (str(m.status[p]), int(m.iterations[p]))
        if got != want:
            out.append(('second-solve:status', [p, want], [p, got], 'after a failing second run a period does not carry the status it should (its new one if re-solved or stamped, else the one it had)'))
            break
    return out


def run_second_solve(acc, tier):
    for scen in ('pre-hook', 'post-hook', 'pre-existing-nan', 'exc-in-pass', 'pre-existing-nan-persisting'):
        for fpos in (1, 2, 3):
            for errors in ('raise', 'skip', 'ignore', 'replace'):
                for failures in ('raise', 'ignore'):
                    for entry in ('solve', 'solve_t', 'solve_period'):
                        case = dict(kind='second-solve', scenario=scen, fpos=fpos, errors=errors, failures=failures, entry=entry)
                        acc.evaluations += 1
                        acc.nontrivial += 1
                        acc.traces += 1
                        for key, exp, obs, what in run_second_solve_case(case):
                            acc.violation(key + ':' + scen, case, exp, obs, what)


def run_block(block, tier, seed):
    acc = Acc()
    if block['kind'] == 'second-solve':
        run_second_solve(acc, tier)
    elif block['kind'] == 'pairs':
        run_pairs(block, tier, acc)
    elif block['kind'] == 'period':
        run_period(acc, tier)
    elif block['kind'] == 'parser':
        run_parser(acc, tier, block)
    else:
        for what in ('empty-span', 'ambiguous-year', 'min-gt-max', 'short-span', 'duplicate-label', 'defaults', 'repeated-label-inside', 'infeasible-explicit', 'rerun-after-fault-with-offset'):
            case = {'kind': 'misc', 'what': what}
            acc.evaluations += 1
            acc.nontrivial += 1
            for key, exp, obs, w in run_misc_case(case):
                acc.violation(key, case, exp, obs, w)
    return acc


def run_one(case):
    k = case['kind']
    if k == 'pairs':
        return run_pair_case(case)[0]
    if k == 'period':
        return run_period_case(case)
    if k == 'misc':
        return run_misc_case(case)
    if k == 'second-solve':
        return run_second_solve_case(case)
    if k == 'parser':
        return run_parser_case(case)
    raise ValueError(k)


def finalize(acc, tier, seed):
    acc.states = max(acc.states, 1)
    return {'span_types': list(spans.SPAN_TYPES), 'faults': FAULTS}
