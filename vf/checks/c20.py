# -*- coding: utf-8 -*-
"""C20 - the dependency graph tool reports exactly the dependencies the equations have.

Deciding step: bounded exhaustive enumeration of programs (strata S1, S2, S4 and S3 up to 4 nodes); for every
equation the in-edges of its left-hand-side node among variable-like nodes are compared with (a) the terms the
generator wrote on that right-hand side and (b) the set of cells actually read by an isolated evaluation of the
equation's real generated code over recording values under ALL branch outcomes - which decides both directions
("no edge => cannot influence", "edge => actually read") for all data at once.
"""
import re

import fsic
import fsic.tools as tools
from fsic.exceptions import ParserError, SymbolError

from .. import programs, symrec
from ..core.runner import Acc, guard, CaseTimeout, robust

ID = 'C20'
LEVEL = 'exploration'
TECHNIQUE = 'bounded exhaustive program enumeration; graph edges vs generator terms and vs the all-branch read set of the real generated code over recording values'
RULE = ('strata S1, S2, S4 (8 quick / 12 thorough RHS options), S3 up to 4 (quick) / 5 (thorough) nodes, specials (several left-hand-side terms, offsets >= 10); the graph judged is the one returned after an earlier result was taken apart; per equation: node + equation attribute, in-edges among '
        'variable-like nodes == generator terms == cells read on some branch outcome. non-trivial = accepted program with at least one edge; distinct by script text'
        ' Each program respelled (tight / wide assignment sign, blanks before every index bracket, a trailing comment holding terms and further hashes) gives the same graph.'
        ' The class built from the symbols must not call a period feasible at which a term with an edge is read from a wrapped-round cell.')
ASSUMPTIONS = [
    '"actually read" = read on at least one branch outcome (conditional expressions read one branch)',
    'reads performed inside verbatim fragments are not expected to have edges (backticked code is opaque to the parser)',
    'a term made dead for all data by a literal operand (Y = 2 or X) keeps its edge: counted, not alarmed (the edge definition is syntactic)',
]

VARLIKE = re.compile(r'^[_A-Za-z]\w*\[.+\]$')


def node_text(name, off):
    if isinstance(off, tuple):
        return '%s[%s]' % (name, off[1])
    if off == 0:
        return '%s[t]' % name
    return '%s[t%+d]' % (name, off)


def constants():
    """Equations without any term on the right-hand side, alone and next to equations that read the constant before/after it is set."""
    T, L, E, P = programs.Term, programs.Lit, programs.Eq, programs.Program
    for ctx, leaves in (('PH0', [L('20')]), ('PH0 * PH1', [L('0.025'), L('2')]), ('-PH0', [L('1')]), ('max(PH0, PH1)', [L('1'), L('2')])):
        yield P([E(T('G'), ctx, leaves)], 'const')
        yield P([E(T('G'), ctx, leaves), E(T('Y'), 'PH0 + PH1', [T('G'), T('X')])], 'const')
        yield P([E(T('Y'), 'PH0 + PH1', [T('G'), T('X')]), E(T('G'), ctx, leaves)], 'const')
        yield P([E(T('G', 'v', 1), ctx, leaves), E(T('r'), ctx, leaves)], 'const')


def verbatim():
    """Equations with one or several inline verbatim fragments: the fragments are opaque, every ordinary term keeps its edge."""
    T, V, L, E, P = programs.Term, programs.Verb, programs.Lit, programs.Eq, programs.Program
    for p in programs.sv():
        yield p
    frag = [V('0.25 * 2'), V('np.sqrt(4.0)'), V('self._W[t]'), V('1 + 1')]
    for a, b in ((0, 1), (2, 3), (1, 2)):
        yield P([E(T('C'), 'PH0 * PH1 + PH2 * PH3 + PH4', [frag[a], T('Y'), T('alpha', 'p'), T('H', 'v', -1), frag[b]])], 'SV2')
        yield P([E(T('C'), 'PH0 + PH1 - PH2 * PH3', [frag[a], T('Y', 'v', 1), frag[b], T('e', 'e')]), E(T('W'), 'PH0', [T('C', 'v', -1)])], 'SV2')


def strata(tier):
    yield 'verbatim', verbatim
    yield 'const', constants
    yield 'S1', programs.s1
    yield 'SL', programs.sl
    yield 'S2', programs.s2
    yield 'S3', (lambda: programs.s3(4)) if tier == 'quick' else (lambda: programs.s3(5))
    yield 'S4', (lambda: programs.s4(8)) if tier == 'quick' else (lambda: programs.s4(None))


def real_reads(eq_text, lhs_name, span_len, t):
    """Cells read by the real generated code of one equation, over all branch outcomes, as node texts."""
    symbols = fsic.parse_model(eq_text)
    Model = fsic.build_model(symbols)
    paths = symrec.run_model(Model, range(span_len), t)
    cells = set()
    for pc, writes in paths:
        if isinstance(writes, tuple) and writes and writes[0] == 'EXC':
            return None
        if not writes:
            return None  # the equation wrote its own cell back unchanged ('A = A'): reads are not observable through writes
        symrec.leaves_of(pc, cells)
        for cell, tree in writes:
            symrec.leaves_of(tree, cells)
    return {node_text(n, i - t) for n, i in cells}


@robust(1, 'exception')
def check_program(p):
    script = p.script()
    try:
        symbols = fsic.parse_model(script)
    except (ParserError, SymbolError, IndentationError) as e:
        return [], 'rejected'
    out = []
    try:
        G = fresh_graph(symbols, script)
    except GraphNotFresh as e:
        return [('graph-not-fresh', e.args[0], e.args[1], 'a second call for the same model is affected by what the caller did to the first result: %r' % script)], 'accepted'
    except Exception as e:
        return [('graph-exception:%s' % type(e).__name__, 'a graph', repr(e)[:200], 'symbols_to_graph raised for %r' % script)], 'accepted'
    by_name = {s.name: s for s in symbols}
    lags, leads = p.lags_leads()
    L, t = lags + leads + 2, lags
    n_edges = 0
    seen_lhs = set()
    dead_by_constant = [0]
    for e in p.eqs:
        y = node_text(e.lhs.name, e.lhs.off)
        if y in seen_lhs:
            continue
        seen_lhs.add(y)
        if y not in G.nodes:
            out.append(('node-missing', y, sorted(G.nodes)[:6], 'no node for the left-hand-side term of %r' % e.text()))
            continue
        sym = by_name.get(e.lhs.name)
        if sym is None or G.nodes[y].get('equation') != sym.equation:
            out.append(('node-equation', sym.equation if sym else None, G.nodes[y].get('equation'), 'node does not carry the normalised equation'))
        got = {u for u, _ in G.in_edges(y) if VARLIKE.match(u)}
        want = {node_text(term.name, term.off) for term in e.terms_in_text_order()[1:]}
        n_edges += len(got)
        if got != want:
            out.append(('edges-vs-script', sorted(want), sorted(got), 'in-edges of %s differ from the terms written on the right-hand side of %r' % (y, e.text())))
            continue
        if all(isinstance(term.off, int) for term in e.terms_in_text_order()) and not any(isinstance(l, programs.Verb) for l in e.leaves):
            try:
                reads = real_reads(e.text(), e.lhs.name, L, t)
            except OverflowError:
                reads = None
            if reads is not None and reads - got:
                out.append(('read-without-edge', sorted(got), sorted(reads), 'the generated code of %s reads a cell that has no edge into it' % y))
            elif reads is not None and got - reads:
                if any(isinstance(l, programs.Lit) for l in e.leaves) or re.search(r'\b(and|or|if|not)\b', e.ctx) or re.search(r'[\])]\[\d\]', e.ctx):   # (a constant subscript of a tuple/list display selects one operand: the others are dead)
                    # 'Y = 2 or X', 'Y = exp(not X) or {a}': an operand that is truthy/falsy for ALL data short-circuits - the term is dead code
                    dead_by_constant[0] += 1
                else:
                    out.append(('edge-never-read', sorted(reads), sorted(got), 'a term with an edge into %s is read on no branch outcome' % y))
    # the graph does not depend on how the script is spaced: no blanks round the assignment sign, none round operators
    if not out and '`' not in script:
        for tag, respelled in (('tight-assignment', '\n'.join(line.replace(' = ', '=', 1) for line in script.split('\n'))),
                               ('wide-assignment', '\n'.join(line.replace(' = ', '   =   ', 1) for line in script.split('\n'))),
                               ('blanks-before-index', re.sub(r'([A-Za-z0-9_}>])\[', r'\1  [', script)),
                               ('comment-with-terms-and-hashes', '\n'.join(line + '  # was Hq[-3] # + <zq9> # {pq}[1]' for line in script.split('\n')))):
            try:
                G2 = tools.symbols_to_graph(fsic.parse_model(respelled))
            except (ParserError, SymbolError, IndentationError):
                continue
            except Exception as e:
                out.append(('respelled:%s:%s' % (tag, type(e).__name__), 'a graph', repr(e)[:160], 'symbols_to_graph raised for %r' % respelled))
                break
            if sorted(G2.nodes) != sorted(G.nodes) or sorted(G2.edges) != sorted(G.edges):
                out.append(('respelled:%s' % tag, sorted(G.edges)[:6], sorted(G2.edges)[:6], 'the same equations spelled %r give another graph' % respelled))
                break
    # "a series with no edge into y cannot influence y" at every period the class itself calls feasible: the class's lag / lead
    # lengths cover the deepest lag and furthest lead among the edges (otherwise the first feasible period reads a wrapped-round
    # cell - a (series, offset) pair that has no edge)
    if not out and n_edges and '`' not in script:
        try:
            Model = fsic.build_model(symbols)
            if int(Model.LAGS) < lags or int(Model.LEADS) < leads:
                out.append(('feasible-range-shorter-than-edges', [lags, leads], [int(Model.LAGS), int(Model.LEADS)],
                            'the class built from these symbols calls a period feasible at which a term with an edge is read from a wrapped-round cell'))
        except Exception:
            pass   # (whether the class builds is C13's and C15's business)
    # no edge may point into a node that is not a left-hand side
    lhs_nodes = {node_text(e.lhs.name, e.lhs.off) for e in p.eqs}
    stray = [(u, v) for u, v in G.edges if v not in lhs_nodes]
    if stray:
        out.append(('edge-into-non-lhs', [], stray[:4], 'an edge points into a node that is not a left-hand-side term'))
    return out, ('accepted' if n_edges else 'accepted-no-edges') + (':dead-term-by-constant' if dead_by_constant[0] else '')


SPECIAL_EXPECT = [
    ('Y = exp(X[-1]) * {a} + <e> + Y[-1] if Z > 0 else W[2]', {'Y[t]': {'X[t-1]', 'a[t]', 'e[t]', 'Y[t-1]', 'Z[t]', 'W[t+2]'}}),
    ('A = B + C[-1]\nB = max(A[-1], D) - abs(<u>)\nE = `self._A[t]` + F[1]', {'A[t]': {'B[t]', 'C[t-1]'}, 'B[t]': {'A[t-1]', 'D[t]', 'u[t]'}, 'E[t]': {'F[t+1]'}}),
    ("Y = X['b'] + Z", {'Y[t]': {"X['b']", 'Z[t]'}}),
    ('Y = (X +\n     Z[-1])', {'Y[t]': {'X[t]', 'Z[t-1]'}}),
    ('Y[1] = X + Y[-1]', {'Y[t+1]': {'X[t]', 'Y[t-1]'}}),
    # several left-hand-side terms: one node each, every right-hand-side term points into each of them
    ('(A, B) = (X[-1] + {a} * Z, X[-1] - {a} * Z)', {'A[t]': {'X[t-1]', 'a[t]', 'Z[t]'}, 'B[t]': {'X[t-1]', 'a[t]', 'Z[t]'}}),
    ('(A, B[1]) = (X, <e>[-12])\nC = A[-10] + B', {'A[t]': {'X[t]', 'e[t-12]'}, 'B[t+1]': {'X[t]', 'e[t-12]'}, 'C[t]': {'A[t-10]', 'B[t]'}}),
    ('Y = X[-12] + X[12] + Z[-100]', {'Y[t]': {'X[t-12]', 'X[t+12]', 'Z[t-100]'}}),
    # series whose names begin with (or contain) the name of a function or keyword used in the same model
    ('NX = exports - imports + exp(rate) * log(income)\nincome = inflation if orders > 0 else notX and ifs',
     {'NX[t]': {'exports[t]', 'imports[t]', 'rate[t]', 'income[t]'}, 'income[t]': {'inflation[t]', 'orders[t]', 'notX[t]', 'ifs[t]'}}),
    ('Y = max(maxi, min_[-1]) + abs(absorption) + np.log(np_x) + log10x', {'Y[t]': {'maxi[t]', 'min_[t-1]', 'absorption[t]', 'np_x[t]', 'log10x[t]'}}),
    # a long equation (its normalised text is far longer than a line): the node carries all of it
    ('C = ' + ' + '.join('{a%d} * YD%d[-%d]' % (i, i, i % 3 + 1) for i in range(12)), {'C[t]': {'a%d[t]' % i for i in range(12)} | {'YD%d[t-%d]' % (i, i % 3 + 1) for i in range(12)}}),
]


@robust()
def run_special(case):
    script, expect = SPECIAL_EXPECT[case['i']]
    symbols = fsic.parse_model(script)
    G = fresh_graph(symbols, script)
    out = []
    for y, want in expect.items():
        got = {u for u, _ in G.in_edges(y) if VARLIKE.match(u)} if y in G.nodes else None
        if got != want:
            out.append(('special:edges', sorted(want), sorted(got) if got is not None else None, 'in-edges of %s in %r' % (y, script)))
        elif G.nodes[y].get('equation') not in [x.equation for x in symbols if x.equation]:
            out.append(('special:node-equation', 'the normalised equation', G.nodes[y].get('equation'), 'node %s of %r does not carry its normalised equation' % (y, script)))
    return out


def fresh_graph(symbols, script):
    """The graph under test is the one returned AFTER an earlier result for the same model was taken apart by its caller
    (fsic's own examples prune the graph they get): every call must hand out a graph of its own."""
    first = tools.symbols_to_graph(symbols)
    snapshot = (sorted(first.nodes(data=True), key=repr), sorted(first.edges))
    first.remove_nodes_from(list(first.nodes))
    first.add_edge('junk[t]', 'junk2[t]')
    again = tools.symbols_to_graph(fsic.parse_model(script))
    if (sorted(again.nodes(data=True), key=repr), sorted(again.edges)) != snapshot:
        raise GraphNotFresh(snapshot[1][:4], sorted(again.edges)[:4])
    return again


class GraphNotFresh(Exception):
    pass


def blocks(tier, seed):
    out = [{'special': True}]
    for name, _ in strata(tier):
        nb = {'verbatim': 1, 'const': 1, 'SL': 2, 'S1': 8, 'S2': 16, 'S3': 16 if tier == 'quick' else 96, 'S4': 24 if tier == 'quick' else 64}[name]
        for b in range(nb):
            out.append({'stratum': name, 'b': b, 'nb': nb})
    return out


def run_block(block, tier, seed):
    acc = Acc()
    if block.get('special'):
        for i in range(len(SPECIAL_EXPECT)):
            case = {'kind': 'special', 'i': i, 'script': SPECIAL_EXPECT[i][0]}
            acc.evaluations += 1
            acc.nontrivial += 1
            for key, exp, obs, what in run_special(case):
                acc.violation(key, case, exp, obs, what)
        return acc
    gen = dict(strata(tier))[block['stratum']]
    seen = set()
    for i, p in enumerate(gen()):
        if i % block['nb'] != block['b']:
            continue
        script = p.script()
        if script in seen:
            continue
        seen.add(script)
        case = {'kind': 'program', 'script': script, 'stratum': p.stratum}
        acc.evaluations += 1
        try:
            with guard(30):
                v, outcome = check_program(p)
        except CaseTimeout:
            acc.violation('timeout', case, 'termination', 'timeout')
            continue
        acc.outcome(outcome)
        acc.nontrivial += outcome.startswith('accepted') and 'no-edges' not in outcome
        for key, exp, obs, what in v:
            acc.violation(key, case, exp, obs, what)
        if i == block['b']:
            acc.sample(case, limit=1)
    return acc


def run_one(case):
    if case['kind'] == 'special':
        return run_special(case)
    for name, gen in strata('thorough'):
        for p in gen():
            if p.script() == case['script']:
                return check_program(p)[0]
    raise ValueError('script not produced by the enumerator')


def finalize(acc, tier, seed):
    return {'bound': {'S3_nodes': 4 if tier == 'quick' else 5}}
