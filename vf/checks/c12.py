# -*- coding: utf-8 -*-
"""C12 - reindex preserves overlapping periods and fills the rest, on a fresh object.

Deciding step: exhaustive enumeration of all (old span, new span) pairs over a 5-label universe (old:
duplicate-free sequences, new: sequences with repetition) x span-type pairs x fill configurations x strict,
on containers and on unsolved / partly / fully solved models; label-wise reference and object-graph walk.
"""
import itertools

import numpy as np
import pandas as pd

import fsic
from fsic.core import VectorContainer
from fsic.extensions import PandasIndexFeaturesMixin

from ..core.observe import observe, diff_obs, canon
from ..core.runner import Acc, guard, CaseTimeout, robust
from .c11 import shared

ID = 'C12'
LEVEL = 'exploration'
TECHNIQUE = 'bounded exhaustive enumeration of (old span, new span) pairs x span types x fill configurations against a label-wise reference; sharing walk'
RULE = ('label universe of 5; old span = every duplicate-free sequence of length 0..2 (quick) / 0..3 (thorough), new span = every sequence with repetition '
        'of length 0..3 (quick) / 0..4 (thorough); 7 span-type pairs; 6 fill configurations x strict in {None, False, True}; containers with '
        'float/int/bool/str variables and models in 3 solve states with modified lags/leads and an ad-hoc attribute; pandas extension with defaults. '
        'plus old spans that repeat a label (list/tuple spans, first occurrence). non-trivial = at least one period kept or one period filled'
        ' Attributes named one character more than a variable.')
ASSUMPTIONS = [
    'an old span that repeats a label (plain list / tuple spans only): the label denotes its first occurrence, as for every other label access (C10: list.index)',
    'fill values are compared after casting to the variable dtype by hand (int(), bool(), float(), str()[:width])',
]

U_INT = [3, 1, 4, 15, 9]
U_STR = ['c', 'a', 'd', 'zz', 'b']
U_PER = [pd.Period(y, freq='Y') for y in ('2003', '2001', '2004', '2015', '2009')]

TYPE_PAIRS = [
    ('list_int', 'list_int'), ('list_str', 'list_str'), ('np_int', 'np_int'), ('pd_int', 'pd_int'),
    ('list_int', 'pd_int'), ('pd_year', 'pd_year'), ('tuple_int', 'list_int'),
]


def mk_span(kind, idx):
    if kind == 'list_int':
        return [U_INT[i] for i in idx]
    if kind == 'tuple_int':
        return tuple(U_INT[i] for i in idx)
    if kind == 'list_str':
        return [U_STR[i] for i in idx]
    if kind == 'np_int':
        return np.array([U_INT[i] for i in idx], dtype=int)
    if kind == 'pd_int':
        return pd.Index([U_INT[i] for i in idx], dtype=int)
    if kind == 'pd_year':
        return pd.PeriodIndex([U_PER[i] for i in idx], freq='Y')
    raise ValueError(kind)


_MODEL = fsic.build_model(fsic.parse_model('Y = 0.5 * Y[-1] + X'))


class PModel(PandasIndexFeaturesMixin, _MODEL):
    pass


def make_obj(objkind, span, n):
    if objkind == 'container':
        c = VectorContainer(span)
        c.add_variable('F', [1.5 + i for i in range(n)])
        c.add_variable('K', [10 + i for i in range(n)])
        c.add_variable('Q', [i % 2 == 0 for i in range(n)])
        c.add_variable('S', [chr(97 + i) for i in range(n)] if n else np.array([], dtype='<U1'))
        c.add_variable('S5', [('w%d' % i) * 2 for i in range(n)], dtype='<U5')     # strings wider than any fill used here
        c.add_variable('Z', [complex(i, -i) for i in range(n)], dtype=complex)
        c.add_variable('I32', [100 + i for i in range(n)], dtype=np.int32)
        c.add_variable('U8', [200 + i for i in range(n)], dtype=np.uint8)
        c.add_variable('F32', [0.5 + i for i in range(n)], dtype=np.float32)
        c.add_attribute('weights', np.array([0.25, 0.75]))   # attributes of any type carry over: an array, a nested list
        c.add_attribute('notes', [['a'], {'k': 1}])
        c.add_attribute('dF', 'first difference of F')   # attribute names that contain the name of a variable (prefix, suffix, one character more)
        c.add_attribute('K_', 3)
        c.add_attribute('xQ', None)
        return c
    cls = PModel if objkind.startswith('pmodel') else _MODEL
    m = cls(span, X=[1.0 + i for i in range(n)], Y=[0.5 * i for i in range(n)])
    m.lags = 2
    m.leads = 1
    m.adhoc = ['note', 1]
    m.weights = np.array([0.25, 0.75])
    m.dX = 'first difference of X'
    m.gY = 0.02
    m.Y_ = None
    if objkind.endswith('partly') and n >= 1:
        m.status[n - 1] = '.'
        m.iterations[n - 1] = 4
    elif objkind.endswith('solved'):
        m.status[:] = '.'
        m.iterations[:] = 3
        if n:
            m.status[0] = 'F'
    return m


FILLS = [
    ('none', {}),
    ('fill_value', {'fill_value': 7}),
    ('fill_value_float', {'fill_value': 2.5}),
    ('fill_value_zero', {'fill_value': 0}),
    ('fill_value_false', {'fill_value': False}),
    ('keyword', {'K': -1, 'F': 8.5, 'Y': -2.0, 'status': 'X'}),
    ('both', {'fill_value': 7, 'S': 'q', 'X': 0.25, 'iterations': 99, 'Z': 1 + 2j, 'S5': 'toolong'}),
    ('fractional', {'fill_value': 0.5, 'Q': -0.25, 'I32': 0.75, 'Y': 0.5, 'iterations': 7.9}),   # |v| < 1: truthy for a bool variable, 0 for an integer one
    ('none-keyword', {'fill_value': 1.0, 'X': None, 'F': None, 'K': None, 'Q': None, 'S': None, 'status': None}),   # a keyword given as None: the dtype default, not fill_value
    ('unknown', {'fill_value': 0, 'Nope': 1}),
    ('falsy-keywords', {'fill_value': 7, 'K': 0, 'F': 0.0, 'S': '', 'Q': False, 'I32': 0, 'X': 0.0, 'Y': 0, 'status': '', 'iterations': 0}),
]


def default_fill(dtype, name, is_model):
    if is_model and name == 'status':
        return '-'
    if is_model and name == 'iterations':
        return -1
    k = dtype.kind
    return {'f': float('nan'), 'i': 0, 'u': 0, 'b': False, 'U': '', 'c': complex(float('nan'), 0)}[k]


def cast_fill(v, dtype):
    k = dtype.kind
    if k == 'f':
        return float(v)
    if k in 'iu':
        return int(v)
    if k == 'b':
        return bool(v)
    if k == 'U':
        return str(v)[:dtype.itemsize // 4]
    if k == 'c':
        return complex(v)
    raise ValueError(k)


def cell_equal(a, b):
    if isinstance(a, float) and isinstance(b, float) and a != a and b != b:
        return True
    if isinstance(a, complex) and isinstance(b, complex) and a != a and b != b:
        return True
    return a == b


@robust()
def run_case(case):
    objkind, (tk_old, tk_new), old_idx, new_idx, fill_name, strict = case['obj'], case['types'], case['old'], case['new'], case['fill'], case['strict']
    kwargs = dict(dict(FILLS)[fill_name])
    old_span = mk_span(tk_old, old_idx)
    new_span = mk_span(tk_new, new_idx)
    n = len(old_idx)
    obj = make_obj(objkind, old_span, n)
    if objkind != 'container':
        kwargs = {k: v for k, v in kwargs.items() if k in ('fill_value', 'Nope', 'status', 'iterations', 'X', 'Y')}
    else:
        kwargs = {k: v for k, v in kwargs.items() if k in ('fill_value', 'Nope', 'F', 'K', 'S', 'Q', 'I32', 'U8', 'Z', 'S5')}
    if strict is not None:
        kwargs['strict'] = strict
    if case.get('obj_strict'):
        obj.strict = True
    before = observe(obj)
    is_model = objkind != 'container'
    unknown = [k for k in kwargs if k not in ('fill_value', 'strict') and k not in obj.index]
    eff_strict = obj.strict if strict is None else strict
    out = []
    if case.get('after'):
        # a previous reindex call on the same object (other keywords, other span) must leave no trace in this one
        try:
            obj.reindex(mk_span(tk_new, [4, 0]), **dict(dict(FILLS)[case['after']]) if objkind == 'container' else
                        {k: v for k, v in dict(FILLS)[case['after']].items() if k in ('fill_value', 'status', 'iterations', 'X', 'Y')})
        except Exception:
            pass
    try:
        res = obj.reindex(new_span, **kwargs)
        exc = None
    except Exception as e:
        res, exc = None, e
    if observe(obj) != before:
        out.append(('original-changed', 'unchanged', diff_obs(before, observe(obj)), 'reindex changed the original object'))
        return out
    if unknown and eff_strict:
        if not isinstance(exc, KeyError):
            out.append(('unknown-fill:strict-accepted', 'KeyError', type(exc).__name__ if exc else 'accepted', 'unknown fill variable must be rejected under strict'))
        return out
    if exc is not None:
        out.append(('exception:%s' % type(exc).__name__, 'a new object', repr(exc)[:200], 'reindex raised'))
        return out
    if type(res) is not type(obj):
        out.append(('class', type(obj).__name__, type(res).__name__, 'result is of a different class'))
        return out
    if res is obj:
        out.append(('same-object', 'a new object', 'self', 'reindex returned the original'))
        return out
    new_labels = list(new_span)
    if len(res.span) != len(new_labels) or not all(bool(a == b) for a, b in zip(list(res.span), new_labels)):
        out.append(('span', [repr(x) for x in new_labels], [repr(x) for x in list(res.span)], 'span of the result is not the requested span'))
        return out
    if type(res.span) is not type(new_span):
        out.append(('span-type', type(new_span).__name__, type(res.span).__name__, 'the result does not carry the span object it was given (type changed)'))
        return out
    if list(res.index) != list(obj.index):
        out.append(('variable-order', list(obj.index), list(res.index), 'variable order changed'))
        return out
    old_labels = list(old_span)
    for name in obj.index:
        a_old, a_new = obj[name], res[name]
        if a_new.dtype != a_old.dtype:
            out.append(('dtype:%s' % a_old.dtype.kind, a_old.dtype.str, a_new.dtype.str, 'dtype not carried over'))
            return out
        if a_new.shape != (len(new_labels),):
            out.append(('shape', (len(new_labels),), a_new.shape, 'series length differs from the new span'))
            return out
        if name in kwargs and kwargs[name] is None:
            fill = default_fill(a_old.dtype, name, False)   # an explicit None for this variable: the dtype's own default (also for status: '')
        elif name in kwargs:
            fill = cast_fill(kwargs[name], a_old.dtype)
        elif kwargs.get('fill_value') is not None and not (is_model and name in ('status', 'iterations')):
            fill = cast_fill(kwargs['fill_value'], a_old.dtype)
        else:
            fill = default_fill(a_old.dtype, name, is_model)
        for j, lab in enumerate(new_labels):
            if lab in old_labels:
                want = a_old[old_labels.index(lab)].item()
                kind = 'kept'
            else:
                want = fill
                kind = 'filled'
            got = a_new[j].item()
            if not cell_equal(got, want):
                out.append(('value:%s:%s' % (kind, a_old.dtype.kind), want, got, 'variable %s at new position %d (%s)' % (name, j, kind)))
                return out
    # attributes (lags/leads, ad-hoc, strict, names...) carry over
    def attrs(o):
        return tuple((k, v) for k, v in observe(o)[4] if k != 'span')
    if attrs(res) != attrs(obj):
        out.append(('attributes', 'carried over', diff_obs(attrs(obj), attrs(res)), 'attributes differ after reindex'))
        return out
    sh = shared(obj, res)
    if sh:
        out.append(('shared-object', 'nothing shared', sh[:3], 'result shares a mutable object with the original'))
    return out


@robust()
def run_pandas_case(case):
    """PandasIndexFeaturesMixin.reindex with default arguments == base reindex (duplicate-free new spans, float variables)."""
    old_idx, new_idx, (tk_old, tk_new) = case['old'], case['new'], case['types']
    a = make_obj('pmodel-partly', mk_span(tk_old, old_idx), len(old_idx))
    b = make_obj('model-partly', mk_span(tk_old, old_idx), len(old_idx))
    out = []
    # with no pandas filling method requested the extension IS the base reindex, fill values included
    for fills in ({}, {'fill_value': 7}, {'X': 0.25}, {'fill_value': 0.0, 'Y': -2.0}):  # (fills for status / iterations are not honoured by the extension on any version: not demanded)
        try:
            ra = a.reindex(mk_span(tk_new, new_idx), **fills)
        except Exception as e:
            return [('pandas:exception:%s' % type(e).__name__, 'as base reindex', repr(e)[:200], 'pandas extension without a filling method raised (fills %r)' % (fills,))]
        rb = b.reindex(mk_span(tk_new, new_idx), **fills)
        for name in rb.index:
            if canon(ra[name]) != canon(rb[name]):
                out.append(('pandas:differs' + (':fills' if fills else ''), rb[name].tolist(), ra[name].tolist(), 'pandas extension without a filling method differs from base reindex in %s (fills %r)' % (name, fills)))
                return out
    return out


def seqs_nodup(maxlen):
    for r in range(0, maxlen + 1):
        for p in itertools.permutations(range(5), r):
            yield list(p)


def seqs_rep(maxlen):
    for r in range(0, maxlen + 1):
        for p in itertools.product(range(5), repeat=r):
            yield list(p)


def blocks(tier, seed):
    out = []
    for ti, types in enumerate(TYPE_PAIRS):
        for objkind in ('container', 'model-unsolved', 'model-partly', 'model-solved'):
            for fill_name, _ in FILLS:
                if tier == 'quick':
                    # quick: the full product is kept for the 'none' and 'both' fills on containers and partly solved models;
                    # the other fill configurations run on three type pairs, the other solve states with the default fill
                    if objkind in ('model-unsolved', 'model-solved') and fill_name != 'none':
                        continue
                    if fill_name not in ('none', 'both', 'falsy-keywords') and ti not in (0, 4, 5) or (fill_name in ('fill_value_zero', 'fill_value_false') and ti != 0):
                        continue
                out.append({'types': list(types), 'obj': objkind, 'fill': fill_name})
    for types in (('list_int', 'list_int'), ('pd_int', 'pd_int'), ('pd_year', 'pd_year')):
        for first in range(-1, 5):
            out.append({'pandas': True, 'types': list(types), 'first': first})
    # old spans that repeat a label
    for types in (('list_int', 'list_int'), ('list_str', 'list_str'), ('tuple_int', 'list_int')):
        for objkind in ('container', 'model-partly'):
            out.append({'repeated_old': True, 'types': list(types), 'obj': objkind})
    return out


def run_block(block, tier, seed):
    acc = Acc()
    old_max, new_max = (2, 3) if tier == 'quick' else (3, 4)
    if block.get('pandas'):
        for types in (block['types'],):
            for old in seqs_nodup(2 if tier == 'quick' else 3):
                if (old[0] if old else -1) != block['first']:
                    continue
                for new in seqs_nodup(3):
                    case = {'kind': 'pandas', 'types': list(types), 'old': old, 'new': new}
                    acc.evaluations += 1
                    acc.nontrivial += bool(old or new)
                    for key, exp, obs, what in run_pandas_case(case):
                        acc.violation(key, case, exp, obs, what)
        return acc
    if block.get('repeated_old'):
        for old in seqs_rep(3):
            if len(set(old)) == len(old):
                continue
            for new in seqs_rep(2):
                for fill_name in ('none', 'both'):
                    case = dict(kind='reindex', obj=block['obj'], types=block['types'], old=old, new=new, fill=fill_name, strict=None, obj_strict=False)
                    acc.evaluations += 1
                    acc.nontrivial += bool(new)
                    for key, exp, obs, what in run_case(case):
                        acc.violation(key + ':repeated-old-label', case, exp, obs, what)
        return acc
    types, objkind, fill_name = block['types'], block['obj'], block['fill']
    stricts = [None] if fill_name not in ('unknown', 'none') else [None, False, True]   # an explicit strict= never changes the result's own strict flag
    for old in seqs_nodup(old_max):
        for new in seqs_rep(new_max):
            for strict in (stricts if fill_name == 'unknown' or (len(old) == 2 and len(new) == 2) else [None]):
                for obj_strict in ((False, True) if (fill_name == 'unknown' and strict is None) or (fill_name == 'none' and strict is not None) else (False,)):
                    case = dict(kind='reindex', obj=objkind, types=types, old=old, new=new, fill=fill_name, strict=strict, obj_strict=obj_strict)
                    acc.evaluations += 1
                    try:
                        with guard(10):
                            v = run_case(case)
                    except CaseTimeout:
                        acc.violation('timeout', case, 'termination', 'timeout')
                        continue
                    acc.nontrivial += bool(new)
                    for key, exp, obs, what in v:
                        acc.violation(key, case, exp, obs, what)
            if fill_name in ('none', 'fill_value') and len(new) == 2 and objkind in ('container', 'model-partly') and block['types'][0] in ('list_int', 'pd_year'):
                for after in ('keyword', 'both', 'falsy-keywords'):
                    case = dict(kind='reindex', obj=objkind, types=types, old=old, new=new, fill=fill_name, strict=None, obj_strict=False, after=after)
                    acc.evaluations += 1
                    acc.nontrivial += 1
                    for key, exp, obs, what in run_case(case):
                        acc.violation(key + ':after-earlier-call', case, exp, obs, what)
    acc.outcome((objkind, fill_name))
    acc.sample(dict(obj=objkind, types=types, old=[0, 1], new=[1, 3, 1], fill=fill_name), limit=1)
    return acc


def run_one(case):
    if case['kind'] == 'pandas':
        return run_pandas_case(case)
    return run_case(case)


def finalize(acc, tier, seed):
    return {'type_pairs': TYPE_PAIRS, 'fills': [f for f, _ in FILLS]}
