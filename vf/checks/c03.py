# -*- coding: utf-8 -*-
"""C03 - variable classification, ordering and lag/lead lengths match the script.

Deciding step: exhaustive enumeration of "mention programs" - 1..3 equations, each a left-hand-side mention and
1..2 right-hand-side mentions, a mention being (name x kind x offset) - against a reference classifier written
from the statement; x the lags/leads/min_lags/min_leads lattice; and the default solution range on spans of
length LAGS+LEADS+1..+3.
"""
import itertools

import fsic
from fsic.exceptions import ParserError, SymbolError

from ..core.runner import Acc, guard, CaseTimeout, robust

ID = 'C03'
LEVEL = 'exploration'
TECHNIQUE = 'bounded exhaustive enumeration of mention programs x lag/lead option lattice against a reference classifier written from the statement'
RULE = ('mentions = 3 names x {variable, {parameter}, <error>} x offsets {none, -2, +2, label}; LHS = 3 names x {none, +1}; programs: 1 equation x 1..2 RHS mentions, '
        '2 equations x 1 RHS mention (quick) plus 3 equations x 1 RHS mention over a reduced mention set and 2 equations x 2 RHS mentions over a reduced set (thorough); '
        'plus 39 name spellings one case-change/affix away from a keyword or helper; option lattice lags, leads in {None,0,1,3} x min_lags, min_leads in {0,1,3}. non-trivial = accepted program (classification compared) or rejection compared'
        ' Name shapes include soft keywords and underscore-initial names; call spellings with a blank before the bracket; 13 raw scripts with double definitions the generator cannot spell (exp/np.exp, several targets).'
        " 4 hand-classified scripts with comparison operators containing '=', each also after a round trip of its symbols through the tabular form; helper names ending in a digit.")
ASSUMPTIONS = [
    'when a script contains both a kind clash and a double definition either error class is accepted',
    'explicit lags=/leads= replace the derived value outright (min_lags=/min_leads= only raise a derived value), as the docstring says ("impose")',
    'default-range clause is checked only when lags/leads are not overridden below the script\'s own depth',
]

NAMES = ['A', 'B', 'C']
KINDS = ['v', 'p', 'e']
OFFS = [None, -2, 2, "'b'"]
LHS_OFFS = [None, 1]


def spell(name, kind, off):
    base = {'v': name, 'p': '{%s}' % name, 'e': '<%s>' % name}[kind]
    if off is None:
        return base
    if isinstance(off, str):
        return '%s[%s]' % (base, off)
    return '%s[%d]' % (base, off)


SPELLINGS = [None, 'space-before-bracket', 'comment-with-terms', 'comment-lines', 'blank-inside-brackets'] + ['function-calls:%d' % k for k in range(0, 13, 2)] + ['function-calls:9', 'function-calls-blank:1', 'function-calls-blank:6']
FUNCTION_NAMES = ['f', 'g1', 'F', 'fn', 'np.f', 'h_', 'np.sub.f2', 'exp', 'Log', 'log10', 'atan2', 'np.log2', 'expm1']  # names of functions are never variables, however short


def script_of(prog, spelling=None):
    """The same program in another spelling: a blank before a right-hand-side index bracket; trailing comments / comment
    lines that contain terms, brackets, quotes and further hashes (none of which is part of the script)."""
    counter = [0]
    used = {l[0] for l, _ in prog} | {m[0] for _, rhs in prog for m in rhs}
    helpers = [f for f in FUNCTION_NAMES if f not in used and f.split('.')[0] not in used] or ['fn']   # (a name is a function or a variable, not both: Appendix B)

    def rhs_spell(m):
        t = spell(*m)
        if spelling == 'space-before-bracket':
            return t.replace('[', ' [', 1)
        if spelling == 'blank-inside-brackets':
            # a blank on one side only, inside braces / angle brackets / the index bracket
            return t.replace('}', ' }').replace('<', '< ').replace(']', ' ]')
        if spelling and spelling.startswith('function-calls'):
            counter[0] += 1
            # ('-blank': a blank between the name of the function and its bracket, as in `exp (X)`, is still a call)
            return ('%s (%s)' if spelling.startswith('function-calls-blank') else '%s(%s)') % (helpers[(int(spelling.split(':')[1]) + counter[0]) % len(helpers)], t)
        return t
    lines = ['%s = %s' % (spell(l[0], 'v', l[1]), ' + '.join(rhs_spell(m) for m in rhs)) for l, rhs in prog]
    if spelling == 'comment-with-terms':
        lines = [ln + "  # was W9[-7] + <zz9> + {qq9}[+7], see ticket #7 - last year's" for ln in lines]
    elif spelling == 'comment-lines':
        lines = ['## heading with Q9[-9] and a second # hash'] + lines + ["# trailing note: {pp9} isn't used, V9[+8] neither #"]
    return '\n'.join(lines)


def norm(off):
    return 0 if off is None else off


def reference(prog):
    """Expected outcome from the statement: ('reject', {classes}) or ('accept', lists, lags, leads)."""
    order, kinds = [], {}
    for lhs, rhs in prog:
        for name, kind in [(lhs[0], 'endo')] + [(m[0], m[1]) for m in rhs]:
            if name not in order:
                order.append(name)
            kinds.setdefault(name, set()).add(kind)
    clash = any(len({('v' if k == 'endo' else k) for k in ks}) > 1 for ks in kinds.values())
    defs = {}
    double = False
    for lhs, rhs in prog:
        eq = (norm(lhs[1]), tuple((m[0], m[1], norm(m[2])) for m in rhs))
        if lhs[0] in defs and defs[lhs[0]] != eq:
            double = True
        defs.setdefault(lhs[0], eq)
    if clash or double:
        allowed = set()
        if clash:
            allowed.add('SymbolError')
        if double:
            allowed.add('ParserError')
        return ('reject', allowed)
    endo = [n for n in order if 'endo' in kinds[n]]
    exo = [n for n in order if kinds[n] == {'v'}]
    par = [n for n in order if kinds[n] == {'p'}]
    err = [n for n in order if kinds[n] == {'e'}]
    offs = [norm(l[1]) for l, _ in prog if not isinstance(l[1], str)] + [norm(m[2]) for _, rhs in prog for m in rhs if not isinstance(m[2], str)]
    lags = max([0] + [-o for o in offs])
    leads = max([0] + offs)
    return ('accept', (endo, exo, par, err), lags, leads)


OPTION_LATTICE = [dict(lags=a, leads=b, min_lags=c, min_leads=d) for a in (None, 0, 1, 3) for b in (None, 0, 1, 3) for c in (0, 1, 3) for d in (0, 1, 3)]
OPTION_SMALL = [dict(), dict(lags=1, leads=None, min_lags=0, min_leads=1), dict(lags=None, leads=3, min_lags=1, min_leads=0), dict(lags=None, leads=None, min_lags=3, min_leads=3),
                dict(lags=0, leads=0, min_lags=0, min_leads=0)]


def allowed_len(explicit, derived, minimum):
    if explicit is None:
        return {max(derived, minimum)}
    return {explicit}  # an explicit value replaces the derived one outright; min_* only raise a derived value


@robust(1, 'exception')
def run_case(case):
    prog = [((l[0], l[1]), [tuple(m) for m in rhs]) for l, rhs in case['prog']]
    script = script_of(prog, case.get('spelling'))
    ref = reference(prog)
    out = []
    try:
        symbols = fsic.parse_model(script)
        got = 'accept'
    except (ParserError, SymbolError) as e:
        got = type(e).__name__
    if ref[0] == 'reject':
        if got not in ref[1]:
            out.append(('rejection:%s' % '+'.join(sorted(ref[1])), sorted(ref[1]), got, 'script must be rejected (kind clash / double definition): %s' % script))
        return out, 'rejected'
    if got != 'accept':
        out.append(('spurious-rejection:%s' % got, 'accepted', got, 'a consistent script was rejected: %s' % script))
        return out, 'spurious'
    (endo, exo, par, err), lags, leads = ref[1], ref[2], ref[3]
    has_label = any(isinstance(m[2], str) for _, rhs in prog for m in rhs) or str(case.get('spelling')).startswith('function-calls')  # (undefined helper functions: the model is classified, not solved)
    solved_for = set()
    options = list(OPTION_LATTICE if case.get('full_options') else OPTION_SMALL)
    options += [dict(o, with_type_hints=False) for o in OPTION_SMALL]   # the same, from the template without type hints
    for opt in options:
        Model = fsic.build_model(symbols, **opt)
        obs = (list(Model.ENDOGENOUS), list(Model.EXOGENOUS), list(Model.PARAMETERS), list(Model.ERRORS))
        if obs != (endo, exo, par, err):
            out.append(('classification', (endo, exo, par, err), obs, 'variable classes/order differ: %s' % script))
            break
        if list(Model.NAMES) != endo + exo + par + err:
            out.append(('names-order', endo + exo + par + err, list(Model.NAMES), 'NAMES is not ENDOGENOUS+EXOGENOUS+PARAMETERS+ERRORS'))
            break
        if list(Model.CHECK) != endo:
            out.append(('check-list', endo, list(Model.CHECK), 'CHECK is not the endogenous list'))
            break
        want_lags = allowed_len(opt.get('lags'), lags, opt.get('min_lags', 0))
        want_leads = allowed_len(opt.get('leads'), leads, opt.get('min_leads', 0))
        if Model.LAGS not in want_lags or Model.LEADS not in want_leads:
            out.append(('lags-leads', [sorted(want_lags), sorted(want_leads)], [Model.LAGS, Model.LEADS], 'LAGS/LEADS for %s with %r' % (script, opt)))
            break
        if not has_label and Model.LAGS >= lags and Model.LEADS >= leads and (Model.LAGS, Model.LEADS) not in solved_for:
            solved_for.add((Model.LAGS, Model.LEADS))  # the default range depends on the option set only through LAGS/LEADS
            # spans too short to contain any feasible period: the default range is empty (nothing to solve, nothing raised)
            for n in range(max(Model.LAGS, Model.LEADS) + 1, Model.LAGS + Model.LEADS + 1):  # both default bounds exist, in reversed order
                m = Model(range(50, 50 + n))
                m.values = 1.0
                try:
                    labels, idx, flags = m.solve(max_iter=2, failures='ignore', errors='ignore')
                    if list(labels) or list(idx) or list(flags):
                        out.append(('default-range:short-span', [], list(labels), 'a span without a feasible period must give an empty default range'))
                        break
                except Exception as e:
                    out.append(('default-range:short-span:exception', 'empty range', repr(e)[:160], 'default solve() on a span of %d period(s) with LAGS=%d, LEADS=%d' % (n, Model.LAGS, Model.LEADS)))
                    break
            if out:
                break
            # spans shorter still (not even the default bounds exist): whatever the call does - an empty result or an error -
            # no period is solved and nothing is read from the other end of the span
            for n in range(1, max(Model.LAGS, Model.LEADS) + 1):
                m = Model(range(50, 50 + n))
                m.values = 1.0
                before = [m.status.tolist(), m.iterations.tolist(), m.values.tolist()]
                try:
                    res = m.solve(max_iter=2, failures='ignore', errors='ignore')
                    visited = list(res[0])
                except Exception:
                    visited = []
                try:
                    visited += [lab for _, lab in m.iter_periods()]   # the default range itself: empty (or refused), never wrapped round
                except Exception:
                    pass
                if visited or [m.status.tolist(), m.iterations.tolist(), m.values.tolist()] != before:
                    out.append(('default-range:very-short-span', 'no period solved, nothing changed', [visited, m.status.tolist()], 'default solve() on a span of %d period(s) with LAGS=%d, LEADS=%d solved something' % (n, Model.LAGS, Model.LEADS)))
                    break
            if out:
                break
            for extra in (1, 2, 3):
                n = Model.LAGS + Model.LEADS + extra
                m = Model(range(50, 50 + n))
                m.values = 1.0
                try:
                    labels, idx, _ = m.solve(max_iter=2, failures='ignore', errors='ignore')
                except Exception as e:
                    out.append(('default-range:exception', 'solves', repr(e)[:160], 'default solve() failed on a span of length LAGS+LEADS+%d' % extra))
                    break
                want = list(range(50 + Model.LAGS, 50 + n - Model.LEADS))
                if list(labels) != want:
                    out.append(('default-range', want, list(labels), 'default solution range is not span[LAGS : len-LEADS]'))
                    break
            if out:
                break
    return out, 'accepted'


def mentions(names=NAMES, kinds=KINDS, offs=OFFS):
    return [(n, k, o) for n in names for k in kinds for o in offs]


def lhss(names=NAMES, offs=LHS_OFFS):
    return [(n, o) for n in names for o in offs]


# spellings that are NOT keywords or function names but are close to one (case, affixes): all are ordinary names
NAME_SHAPES = ['IS', 'AS', 'IN', 'OR', 'NOT', 'AND', 'IF', 'Else', 'Lambda', 'TRUE', 'true', 'none', 'NONE', 'false', 'is_', 'in2', '_or', 'Or', 'E', 'e', 'T', 't_', 'EXP', 'Max', 'MIN',
               'Log', 'log1', 'np_', 'NP', 'Self', 'notX', 'ifelse', 'For', 'DEL', 'Pass', 'Yield_', 'exp_', 'abs1', 'maxi',
               'type', 'match', 'case', '_', '_beta', '_1']   # (soft keywords are ordinary names; names that begin with an underscore)


def name_shape_programs():
    for nm in NAME_SHAPES:
        for k in KINDS:
            for o in (None, -2, 2):
                yield [(('Y', None), [(nm, k, o)])], False
                yield [(('Y', None), [(nm, k, o), ('X', 'v', -1)])], False
                yield [(('Y', None), [('X', 'v', 1), (nm, k, o)])], False
        yield [((nm, None), [('X', 'v', -2)])], False
        yield [((nm, 1), [(nm, 'v', -1), ('X', 'v', None)])], False


def program_space(tier):
    M, L = mentions(), lhss()
    for x in name_shape_programs():
        yield x
    # 1 equation, 1 and 2 RHS mentions
    for l in L:
        for m in M:
            yield [(l, [m])], True
        for m1, m2 in itertools.product(M, repeat=2):
            yield [(l, [m1, m2])], True
    # 1 equation, 3 RHS mentions over a reduced mention set (a name repeated with another name of the same class in between)
    M3 = mentions(kinds=['v', 'p'], offs=[None, -2]) if tier != 'quick' else mentions(kinds=['v', 'p'], offs=[None])
    for l in lhss(offs=[None]):
        for m1, m2, m3 in itertools.product(M3, repeat=3):
            yield [(l, [m1, m2, m3])], False
    # 2 equations, 1 RHS mention each
    for l1, m1, l2, m2 in itertools.product(L, M, L, M):
        yield [(l1, [m1]), (l2, [m2])], False
    if tier != 'quick':
        Ms = mentions(offs=[None, -2])
        Ls = lhss(offs=[None])
        for l1, m1, l2, m2, l3, m3 in itertools.product(Ls, Ms, Ls, Ms, Ls, Ms):
            yield [(l1, [m1]), (l2, [m2]), (l3, [m3])], False
        Mr = mentions(names=['A', 'B'], offs=[None, -2, 2])
        for l1, a1, b1, l2, a2, b2 in itertools.product(Ls[:2], Mr, Mr, Ls[:2], Mr, Mr):
            yield [(l1, [a1, b1]), (l2, [a2, b2])], False


def blocks(tier, seed):
    nb = 64 if tier == 'quick' else 256
    return [{'b': b, 'nb': nb} for b in range(nb)]


# two *different* equations for one variable, in spellings the program generator does not produce: a replaced function and its
# namespaced twin, a statement with several targets followed by another definition of one of them (first or second)
RAW_DOUBLE_DEFINITIONS = [
    'Y = exp(X)\nY = np.exp(X)', 'Y = log(X) + Z\nY = np.log(X) + Z', 'Y = max(X, Z)\nY = np.maximum(X, Z)', 'Y = X + 1\nY = X + 1.0',
    '(A, B) = (X, Z)\nB = W[-1]', '(A, B) = (X, Z)\nA = W[-1]', 'A,B = X, Z\nB = W', 'B = W[-1]\n(A, B) = (X, Z)',
    'Y = X[-1]\nZ = Y\nY = X[-2]', 'Y = {a} * X\nY = {a}  *  X + 0',
]
RAW_SAME_DEFINITIONS = ['Y = X + 1\nY = X  +  1', 'Y = exp( X )\nY = exp(X)  # again', '(A, B) = (X, Z)\n(A, B) = (X,  Z)']


# scripts with comparison operators that contain '=' (the statement is split at its FIRST '='): expected classes written by hand
RAW_CLASSIFIED = [
    ('Y = (X >= Z) * W[-1]', ['Y'], ['X', 'Z', 'W'], [], [], 1, 0),
    ('Y = (X <= {a}) + (Z[1] == <e>)', ['Y'], ['X', 'Z'], ['a'], ['e'], 0, 1),
    ('Y = (X != Z[-2]) * 2\nZ = (Y >= X) + W', ['Y', 'Z'], ['X', 'W'], [], [], 2, 0),
    ('Y = X if Z == 1 else W[2]', ['Y'], ['X', 'Z', 'W'], [], [], 0, 2),
]


@robust()
def run_raw_classified_case(case):
    script, endo, exo, par, err, lags, leads = case['script'], case['endo'], case['exo'], case['par'], case['err'], case['lags'], case['leads']
    out = []
    try:
        symbols = fsic.parse_model(script)
        routes = [('build_model', fsic.build_model(symbols))]
        # ... and the same symbols after a round trip through the tabular form
        import fsic.tools as tools
        routes.append(('table-round-trip', fsic.build_model(tools.dataframe_to_symbols(tools.symbols_to_dataframe(symbols)))))
    except Exception as e:
        return [('raw-classified:%s' % type(e).__name__, 'accepted', repr(e)[:120], 'a consistent script is rejected: %r' % script)]
    for route, M in routes:
        got = (list(M.ENDOGENOUS), list(M.EXOGENOUS), list(M.PARAMETERS), list(M.ERRORS), int(M.LAGS), int(M.LEADS))
        if got != (endo, exo, par, err, lags, leads):
            out.append(('raw-classified:%s' % route, [endo, exo, par, err, lags, leads], list(got), 'variable classes / lag and lead lengths differ: %r' % script))
            break
    return out


@robust()
def run_raw_case(case):
    script = case['script']
    try:
        fsic.parse_model(script)
        got = 'accept'
    except (ParserError, SymbolError) as e:
        got = type(e).__name__
    if case['expect'] == 'reject' and got == 'accept':
        return [('rejection:double-definition:raw', 'ParserError', got, 'two different equations for one variable must be rejected: %r' % script)]
    if case['expect'] == 'accept' and got != 'accept':
        return [('spurious-rejection:same-equation-twice:%s' % got, 'accepted', got, 'the same equation written twice is not a double definition: %r' % script)]
    return []


def run_block(block, tier, seed):
    acc = Acc()
    if block['b'] == 0:
        for expect, scripts in (('reject', RAW_DOUBLE_DEFINITIONS), ('accept', RAW_SAME_DEFINITIONS)):
            for script in scripts:
                case = {'raw': True, 'script': script, 'expect': expect}
                acc.evaluations += 1
                acc.nontrivial += 1
                for key, exp, obs, what in run_raw_case(case):
                    acc.violation(key, case, exp, obs, what)
        for script, endo, exo, par, err, lags, leads in RAW_CLASSIFIED:
            case = {'raw_classified': True, 'script': script, 'endo': endo, 'exo': exo, 'par': par, 'err': err, 'lags': lags, 'leads': leads}
            acc.evaluations += 1
            acc.nontrivial += 1
            for key, exp, obs, what in run_raw_classified_case(case):
                acc.violation(key, case, exp, obs, what)
    for i, (prog, full) in enumerate(program_space(tier)):
        if i % block['nb'] != block['b']:
            continue
        for spelling in (SPELLINGS if (len(prog) == 1 and len(prog[0][1]) <= 2 and prog[0][0][1] is None) else SPELLINGS[:1]):
            case = {'prog': [[list(l), [list(m) for m in rhs]] for l, rhs in prog], 'full_options': full and spelling is None, 'script': script_of(prog, spelling)}
            if spelling:
                case['spelling'] = spelling
            acc.evaluations += 1
            try:
                with guard(20):
                    v, outcome = run_case(case)
            except CaseTimeout:
                acc.violation('timeout', case, 'termination', 'timeout')
                continue
            acc.outcome(outcome)
            acc.nontrivial += 1
            for key, exp, obs, what in v:
                acc.violation(key + (':' + spelling if spelling else ''), case, exp, obs, what)
        if i == block['b']:
            acc.sample({'script': case['script']}, limit=1)
    return acc


def run_one(case):
    if case.get('raw'):
        return run_raw_case(case)
    if case.get('raw_classified'):
        return run_raw_classified_case(case)
    return run_case(case)[0]


def finalize(acc, tier, seed):
    return {'mentions': len(mentions()), 'lhs': len(lhss()), 'option_lattice': len(OPTION_LATTICE)}
