# -*- coding: utf-8 -*-
"""C16 - eval() and the time-series helpers compute what their definitions say.

Deciding step: (a) every float array up to a length bound x every shift p, d in [-n-1, n+1] x fill values for
lag/lead/diff/dlog against the element-wise definitions; (b) an expression grammar with up to three index
sites, each site ranging over every positional and every backticked form, over all span types, against
Python's own eval with label sites pre-resolved from a plain list (inclusive) and positional sites untouched.
"""
import itertools

import numpy as np
import pandas as pd

from fsic.core import VectorContainer
import fsic.functions as ff

from .. import spans
from ..core.observe import observe, canon
from ..core.runner import Acc, guard, CaseTimeout, robust

ID = 'C16'
LEVEL = 'exploration'
TECHNIQUE = 'bounded exhaustive enumeration: all (array length, shift, fill) triples for the helpers; all index-site combinations of an expression grammar x span types for eval(), against direct Python evaluation'
RULE = ('helpers: arrays of length 0..5 (quick) / 0..7 (thorough) x p,d in [-n-1,n+1] x 3 fills x {lag,lead,diff,dlog} x 2 dtypes; eval: 7 templates with 1..3 index '
        'sites x 25 site forms (10 positional, 15 backticked) x 11 span types (negative integer labels, unsorted NumPy labels), plus name-resolution cases incl. 14 variables named like container attributes/methods. '
        'non-trivial = helper call with a non-empty array / expression with at least one index site'
        " Helpers on int64 beyond 2**53, complex and bool arrays in their own arithmetic (13 shifts x 3 fills); a caller's own and an empty helper table.")
ASSUMPTIONS = [
    'mixed positional/label slices (X[1:`2003`]) and non-literal index expressions next to backticks are outside the property',
    'diff for d < 0 is not defined by the statement (NotImplementedError accepted)',
]

N = 5

# --------------------------------------------------------------------------- helpers


def ref_lag(x, p, fill):
    n = len(x)
    out = np.empty(n, dtype=float)
    for i in range(n):
        out[i] = x[i - p] if 0 <= i - p < n else fill
    return out


def ref_diff(x, d, fill):
    n = len(x)
    out = np.empty(n, dtype=float)
    for i in range(n):
        out[i] = x[i] - x[i - d] if i >= d else fill
    return out


@robust()
def run_helper_case(case):
    n, k, fill, fn, dt = case['n'], case['k'], case['fill'], case['fn'], case['dtype']
    fill = float('nan') if fill == 'nan' else fill
    x = (np.arange(n) * 1.5 + 2.0) if dt == 'float' else (np.arange(n) * 3 + 2).astype(float)
    if n >= 2:
        x[1] = 0.75
    if case.get('signs'):
        x = x * np.where(np.arange(n) % 3 == 1, 1.0, -1.0)  # negative values (two in a row), and a zero
        if n >= 3:
            x[2] = 0.0
    keep = x.copy()
    out = []
    spell = case.get('call', 'positional')
    kk = np.int64(k) if spell == 'numpy-scalar' else k
    try:
        with np.errstate(all='ignore'):
            if fn == 'lag':
                got, want = (ff.lag(x, p=kk, fill_value=fill) if spell == 'keyword' else ff.lag(x, kk, fill_value=fill)), ref_lag(keep, k, fill)
            elif fn == 'lead':
                got, want = (ff.lead(x, p=kk, fill_value=fill) if spell == 'keyword' else ff.lead(x, kk, fill_value=fill)), ref_lag(keep, -k, fill)
            elif fn == 'diff':
                got, want = (ff.diff(x, d=kk, fill_value=fill) if spell == 'keyword' else ff.diff(x, kk, fill_value=fill)), ref_diff(keep, k, fill)
            else:
                got, want = (ff.dlog(x, d=kk, fill_value=fill) if spell == 'keyword' else ff.dlog(x, kk, fill_value=fill)), ref_diff(np.log(keep), k, fill)
    except NotImplementedError:
        if fn in ('diff', 'dlog') and k < 0:
            return out
        raise
    if not np.array_equal(x, keep):
        out.append(('%s:input-modified' % fn, keep.tolist(), x.tolist(), 'helper modified its input'))
    if np.shape(got) != (n,):
        out.append(('%s:length' % fn, n, np.shape(got), 'result has a different length'))
    elif not np.array_equal(np.asarray(got, dtype=float), want, equal_nan=True):
        key = '%s:d==0' % fn if (fn in ('diff', 'dlog') and k == 0) else '%s:values' % fn
        out.append((key, want.tolist(), np.asarray(got).tolist(), '%s(x, %d) differs from its definition' % (fn, k)))
    return out


@robust()
def run_helper_exact_case(case):
    """The definitions hold element for element in the array's own arithmetic: integers beyond 2**53, complex numbers, booleans
    (an integer / boolean fill where the dtype cannot hold NaN)."""
    fn, k, dt = case['fn'], case['k'], case['dtype']
    if dt == 'int64':
        x = np.array([2 ** 53 + 1, 2 ** 53 + 3, 5, -(2 ** 60) - 1, 7], dtype=np.int64)
        fill = case['fill']
    elif dt == 'complex':
        x = np.array([1 + 2j, 3 - 1j, 0.5j, -2.25 + 0j, 4 + 4j])
        fill = case['fill'] * (1 + 1j)
    else:
        x = np.array([True, False, True, True, False])
        fill = bool(case['fill'] % 2)
    keep = x.copy()
    items = keep.tolist()
    n = len(items)
    if fn in ('lag', 'lead'):
        p = k if fn == 'lag' else -k
        want = [items[i - p] if 0 <= i - p < n else fill for i in range(n)]
        got = (ff.lag if fn == 'lag' else ff.lead)(x, k, fill_value=fill)
    else:
        if k < 0 or dt == 'bool':
            return []
        want = [items[i] - items[i - k] if i >= k else fill for i in range(n)]
        if k == 0:
            return []   # (diff(x, 0) is the recorded finding)
        got = ff.diff(x, k, fill_value=fill)
    out = []
    if not np.array_equal(x, keep):
        out.append(('%s:input-modified:%s' % (fn, dt), items, x.tolist(), 'helper modified its input'))
    got = np.asarray(got)
    if got.shape != (n,) or got.tolist() != want or got.dtype.kind != keep.dtype.kind:
        out.append(('%s:values:%s' % (fn, dt), [str(keep.dtype), [str(v) for v in want]], [str(got.dtype), [str(v) for v in got.tolist()]], '%s(x, %d) on a %s array differs from its definition in that arithmetic' % (fn, k, dt)))
    return out


# --------------------------------------------------------------------------- eval

EVAL_SPANS = ['range', 'range_zero', 'list_str', 'np_int', 'np_str', 'np_unsorted', 'pd_int', 'pd_str', 'pd_year', 'pd_quarter', 'pd_day']  # range_zero: negative integer labels and the label 0


def label_text(kind, label):
    if kind == 'pd_day':
        return label.strftime('%Y-%m-%d')
    return str(label)


def sites(L):
    out = []
    for txt in ['[1]', '[-1]', '[0:2]', '[ 1 : 3 ]', '[::2]', '[-3:-1]', '[:]', '[2:]', '[:2]', '[1:4:2]']:
        out.append(('pos', txt, txt))
    for i in (0, 2, N - 1):
        out.append(('lab', '[`%s`]' % L[i], '[%d]' % i))
    for a, b in [(0, 2), (1, 1), (2, 1), (0, N - 1)]:
        out.append(('lab', '[`%s`:`%s`]' % (L[a], L[b]), '[%d:%d]' % (a, b + 1)))
        out.append(('lab', '[`%s`:`%s`:2]' % (L[a], L[b]), '[%d:%d:2]' % (a, b + 1)))
    out.append(('lab', '[`%s`:]' % L[1], '[1:]'))
    out.append(('lab', '[:`%s`]' % L[3], '[:4]'))
    out.append(('lab', '[ `%s` : `%s` ]' % (L[1], L[3]), '[1:4]'))
    out.append(('lab', '[`%s`::3]' % L[0], '[0::3]'))
    return out


TEMPLATES = [
    'X{0}',
    'X{0} + 0 * Y{1}',
    'sum(X{0}) + sum(Y{1})',
    'lag(X, 1){0}',
    'sum(X{0}) - sum(lead(Y){1}) + sum(diff(X, 2){2})',
    '(X + Y){0} * 2',
    'sum(Y{0}) * X{1}',
]


def make_container(kind):
    span, labels = spans.make(kind, N)
    c = VectorContainer(span)
    c.add_variable('X', np.arange(N) * 1.0 + 1)
    c.add_variable('Y', np.arange(N) * 10.0 + 3)
    return c, labels


def total(a):
    return float(np.sum(a))


@robust(1, "?")
def run_eval_case(case):
    kind, tpl, combo = case['span'], TEMPLATES[case['tpl']], case['sites']
    c, labels = make_container(kind)
    L = [label_text(kind, l) for l in labels]
    S = sites(L)
    chosen = [S[i] for i in combo]
    expr = tpl.format(*[s[1] for s in chosen])
    ref = tpl.format(*[s[2] for s in chosen])
    env = {'X': c.X.copy(), 'Y': c.Y.copy(), 'sum': total}
    env.update({k: v for k, v in ff.builtins.items()})
    before = observe(c)
    bt_keys, bt_ids = list(ff.builtins), [id(v) for v in ff.builtins.values()]
    out = []
    try:
        with np.errstate(all='ignore'):
            want = eval(ref, {'__builtins__': {}}, env)
        wexc = None
    except Exception as e:
        want, wexc = None, type(e).__name__
    try:
        with np.errstate(all='ignore'):
            got = c.eval(expr, locals={'sum': total})
        gexc = None
    except Exception as e:
        got, gexc = None, type(e).__name__
    kinds = ''.join(sorted(set(s[0][0] for s in chosen)))
    tag = 'numpy-span' if kind.startswith('np_') else 'span'
    if wexc or gexc:
        if wexc != gexc:
            out.append(('eval:exception:%s:%s' % (kinds, tag), wexc, gexc, 'eval raised differently from direct evaluation: %s' % expr))
    elif canon(np.asarray(got, dtype=float)) != canon(np.asarray(want, dtype=float)):
        out.append(('eval:value:%s:%s' % (kinds, tag), np.asarray(want).tolist(), np.asarray(got).tolist(), 'eval(%r) differs from Python evaluation of %r' % (expr, ref)))
    if observe(c) != before:
        out.append(('eval:container-changed', 'unchanged', 'changed', 'eval altered the container'))
    if list(ff.builtins) != bt_keys or [id(v) for v in ff.builtins.values()] != bt_ids:
        out.append(('eval:builtins-changed', bt_keys, list(ff.builtins), 'eval altered the package-level helper table'))
    return out, expr


@robust()
def run_names_case(case):
    kind = case['span']
    c, labels = make_container(kind)
    out = []
    bt = dict(ff.builtins)
    try:
        c.eval('Qq + 1')
        out.append(('names:undefined-accepted', 'AttributeError', 'value', 'undefined name did not raise'))
    except AttributeError as e:
        if 'Qq' not in str(e):
            out.append(('names:undefined-message', "names 'Qq'", str(e), 'AttributeError does not name the undefined identifier'))
    except Exception as e:
        out.append(('names:undefined-class', 'AttributeError', type(e).__name__, 'undefined name raised the wrong exception'))
    # ... whatever else is in the container: variables that differ only in case, names close to several variables
    c3, _ = make_container(kind)
    for extra in ('x', 'y', 'Yy', 'XY'):
        c3.add_variable(extra, 1.0)
    for undefined in ('yy', 'YY', 'xx', 'Xy', 'cons', 'x_', 'Z'):
        try:
            c3.eval('%s + 1' % undefined)
            out.append(('names:undefined-accepted', 'AttributeError', 'value', 'undefined name %r did not raise' % undefined))
        except AttributeError as e:
            if undefined not in str(e):
                out.append(('names:undefined-message', 'names %r' % undefined, str(e), 'AttributeError does not name the undefined identifier'))
        except Exception as e:
            out.append(('names:undefined-class:%s' % type(e).__name__, 'AttributeError', repr(e)[:120], 'undefined name %r (container with variables that differ only in case) raised the wrong exception' % undefined))
            break
    r = c.eval('X + 1', locals={'X': 100})
    if not (np.ndim(r) == 0 and r == 101):
        out.append(('names:locals-override', 101, repr(r), 'caller locals must override variables'))
    c.add_variable('lag', 7.0)
    r = c.eval('lag + 0')
    if not np.array_equal(r, np.full(N, 7.0)):
        out.append(('names:variable-over-helper', [7.0] * N, repr(r), 'a variable must override the helper of the same name'))
    r = c.eval('lag', locals={'lag': 'mine'})
    if r != 'mine':
        out.append(('names:locals-over-variable-and-helper', 'mine', repr(r), 'locals override both'))
    # the helper table is the caller's to replace (`builtins=`): with an empty one the helper names are undefined names like any other,
    # with one of the caller's own its entries are the helpers
    names0 = list(c.index)
    if names0:
        v0 = names0[0]
        for tag, table, expr, want in (('empty-table', {}, 'lead(%s)' % v0, 'AttributeError'), ('empty-table', {}, 'exp(%s[0])' % v0, 'AttributeError'),
                                       ('own-table', {'twice': lambda a: 2 * a}, 'twice(%s)' % v0, 'value'), ('own-table', {'twice': lambda a: 2 * a}, 'dlog(%s)' % v0, 'AttributeError')):   # (the container has a variable called lag)
            try:
                got = c.eval(expr, builtins=table)
                res = 'value'
            except AttributeError as ex:
                res = 'AttributeError' if expr.split('(')[0] in str(ex) else 'AttributeError naming something else: %s' % str(ex)[:60]
            except Exception as ex:
                res = type(ex).__name__
            if res != want or (res == 'value' and canon(np.asarray(got, dtype=float)) != canon(2 * np.asarray(c[v0], dtype=float))):
                out.append(('names:helper-table:%s' % tag, want, res, 'eval(%r, builtins=%s)' % (expr, sorted(table))))
                break
    if dict(ff.builtins) != bt or ff.builtins['lag'] is not ff.lag:
        out.append(('names:builtins-polluted', 'unchanged', 'changed', 'package-level helper table was altered'))
    e = VectorContainer(spans.make(kind, N)[0])
    try:
        e.eval('Zz')
        out.append(('names:undefined-accepted-empty', 'AttributeError', 'value', 'undefined name on an empty container'))
    except AttributeError as ex:
        if 'Zz' not in str(ex):
            out.append(('names:undefined-message-empty', "names 'Zz'", str(ex), 'message does not name the identifier'))
    except Exception as ex:
        out.append(('names:undefined-class-empty', 'AttributeError', type(ex).__name__, 'wrong exception class'))
    r = c.eval('exp(log(X))')
    if not np.allclose(r, c.X):
        out.append(('names:helpers-available', c.X.tolist(), repr(r), 'exp/log helpers'))
    # a variable is bound to its series whatever it is called: also when the name is an attribute, property or method of the container
    L = [label_text(kind, l) for l in labels]
    for nm in ATTRIBUTE_NAMES:
        c2, _ = make_container(kind)
        try:
            c2.add_variable(nm, np.arange(N) * 2.0 + 5)
        except Exception:
            continue
        series = np.arange(N) * 2.0 + 5
        for expr, want in (('%s / 2' % nm, series / 2), ('%s[1] + X' % nm, series[1] + c2.X), ('sum(%s[`%s`:`%s`])' % (nm, L[1], L[3]), float(np.sum(series[1:4]))),
                           ('lag(%s)[2]' % nm, series[1])):
            try:
                got = c2.eval(expr, locals={'sum': total})
            except Exception as e:
                got = e
            if isinstance(got, Exception) or canon(np.asarray(got, dtype=float)) != canon(np.asarray(want, dtype=float)):
                out.append(('names:attribute-like-variable', np.asarray(want).tolist(), repr(got)[:120], 'the variable %r is not bound to its series in %r' % (nm, expr)))
                break
    return out


ATTRIBUTE_NAMES = ['\u03b1', '\u0394Y', 'Y_\u00e9', 'size', 'values', 'span', 'index', 'nbytes', 'copy', 'eval', 'strict', 'dtypes', 'reindex', 'add_variable', 'to_dataframe', 'replace_values', 'get_closest_match']


def blocks(tier, seed):
    out = [{'kind': 'helpers', 'fn': fn} for fn in ('lag', 'lead', 'diff', 'dlog')]
    for kind in EVAL_SPANS:
        for ti in range(len(TEMPLATES)):
            out.append({'kind': 'eval', 'span': kind, 'tpl': ti})
        out.append({'kind': 'names', 'span': kind})
    return out


def run_block(block, tier, seed):
    acc = Acc()
    if block['kind'] == 'helpers':
        top = 5 if tier == 'quick' else 7
        for n in range(0, top + 1):
            for k in range(-n - 1, n + 2):
                for fill in ('nan', 0.0, -1.5, 0, -1, True):   # (a fill of another type does not change what the result holds elsewhere)
                    for dt, extra in (('float', {}), ('intlike', {}), ('float', {'call': 'keyword'}), ('float', {'call': 'numpy-scalar'}), ('float', {'signs': True}),
                                      ('intlike', {'signs': True, 'call': 'keyword'})):
                        case = dict(dict(kind='helper', fn=block['fn'], n=n, k=k, fill=fill, dtype=dt), **extra)
                        acc.evaluations += 1
                        acc.nontrivial += n > 0
                        for key, exp, obs, what in run_helper_case(case):
                            acc.violation(key, case, exp, obs, what)
        for dt in ('int64', 'complex', 'bool'):
            for k in range(-6, 7):
                for fill in (0, -7, 3):
                    case = dict(kind='helper-exact', fn=block['fn'], k=k, fill=fill, dtype=dt)
                    if block['fn'] == 'dlog':
                        continue
                    acc.evaluations += 1
                    acc.nontrivial += 1
                    for key, exp, obs, what in run_helper_exact_case(case):
                        acc.violation(key, case, exp, obs, what)
        acc.sample(dict(fn=block['fn'], n=3, k=1, fill='nan'), limit=1)
        return acc
    if block['kind'] == 'names':
        case = dict(kind='names', span=block['span'])
        acc.evaluations += 1
        acc.nontrivial += 1
        for key, exp, obs, what in run_names_case(case):
            acc.violation(key, case, exp, obs, what)
        return acc
    kind, ti = block['span'], block['tpl']
    k = TEMPLATES[ti].count('{')
    nsites = len(sites(['x'] * N))
    for combo in itertools.product(range(nsites), repeat=k):
        if k == 3 and tier == 'quick' and sum(1 for i in combo if i >= 10) > 1 and (combo[0] + combo[1] + combo[2]) % 3:
            continue  # quick: thin out triples with several label sites (all kept in thorough)
        case = dict(kind='eval', span=kind, tpl=ti, sites=list(combo))
        acc.evaluations += 1
        acc.nontrivial += 1
        try:
            with guard(10):
                v, expr = run_eval_case(case)
        except CaseTimeout:
            acc.violation('eval:timeout', case, 'termination', 'timeout')
            continue
        for key, exp, obs, what in v:
            acc.violation(key, case, exp, obs, what)
        if combo == tuple([12] * k):
            acc.sample({'span': kind, 'expression': expr}, limit=1)
    acc.outcome((kind, ti))
    return acc


def run_one(case):
    if case['kind'] == 'helper':
        return run_helper_case(case)
    if case['kind'] == 'helper-exact':
        return run_helper_exact_case(case)
    if case['kind'] == 'names':
        return run_names_case(case)
    return run_eval_case(case)[0]


def finalize(acc, tier, seed):
    return {'templates': TEMPLATES, 'span_types': EVAL_SPANS, 'site_forms': len(sites(['x'] * N))}
