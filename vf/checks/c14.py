# -*- coding: utf-8 -*-
"""C14 - the layout of the script does not matter; the normal form is a fixed point.

Deciding step: for every program of a catalogue (S1 term shapes, S4 systems, hand-written specials), every
transformation of a layout catalogue is applied at EVERY applicable site singly, at all sites at once, and
(thorough) at every pair of sites of different kinds; the parse of each variant is compared with the parse of
the base layout (symbols as (name, type, lags, leads); `ast.dump` of the generated code per endogenous name).
Plus the merge law (script parse == merge of single-statement parses), statement permutations, and the fixed
point of the normalised equations.
"""
import ast
import io
import itertools
import re
import tokenize

import fsic
from fsic.exceptions import ParserError, SymbolError

from .. import programs
from ..core.runner import Acc, guard, CaseTimeout, robust

ID = 'C14'
LEVEL = 'exploration'
TECHNIQUE = 'bounded exhaustive enumeration of programs x every layout transformation at every site (single, all-at-once, pairs), parse compared with the base layout; merge law and fixed point'
RULE = ('programs: S1 term shapes over 6 names (RHS and LHS), S4 systems over 6 (quick) / 12 (thorough) right-hand sides, specials; transformations T1 comments, T2 blank lines, '
        'T3 extra/removed whitespace at every token boundary, T3b space before an index bracket, T4 spaces inside { } < > [ ], T5 explicit [0], T6 parenthesise-and-break after every '
        'operator, T6 redundant brackets round a single operand, T7 statement permutations; scripts with fenced/inline verbatim code under comments and blanks on every line, duplicate verbatim statements; merge law and fixed point on every program. non-trivial = variant whose text differs from the base layout and is parsed'
        " Names include a soft keyword and '_'; operands bracketed with tab / blanks / line break inside; line break or tab just inside index brackets; the fixed-point law on the normal form reached from every whitespace or bracket layout."
        ' Blank, whitespace-only and comment-only lines inside fenced blocks.')
ASSUMPTIONS = [
    'no leading whitespace on a statement (documented IndentationError); no space between the sign and the digits of an index',
    'a space is only removed where Python tokenises the text identically with and without it and the neighbours are not both alphanumeric',
]

# what a comment may contain: an equals sign and brackets, an apostrophe, a second hash, terms and braces, backticks and quotes
COMMENT_TEXTS = ['a comment = with (brackets', "last period's wealth", 'was H[-3] + <shock>, see ticket #7', 'uses {alpha} and `code` "quoted', '# doubled hash', 'ends with a backslash \\']

_TOK = re.compile(r'PH\d+|\d+\.\d+|\d+|[A-Za-z_][\w.]*|\*\*|<=|>=|==|!=|[-+*/()<>,]|\S')


class Layout:
    """Per-equation rendering options."""

    def __init__(self):
        self.gaps = {}          # boundary index -> replacement gap text
        self.term = {}          # atom index -> dict(inner=bool, idx_inner=bool, zero=bool, pre_bracket=str)
        self.breaks = set()     # boundary indexes after which the line is broken (requires paren wrapping)
        self.wrap = None        # None | 'rhs' | 'all'
        self.comment = {}       # physical line number within the statement -> comment text
        self.between = {}       # boundary index of a break -> whole line(s) put between the two continuation lines (blank / comment-only)
        self.glued_comment = False   # the trailing comment follows the last token without a blank ('...X#note')


def atoms_of(eq):
    """[(kind, payload)] for 'LHS = RHS': kind 'term' (payload Term) or 'tok' (payload text); plus default gaps."""
    atoms = [('term', eq.lhs), ('tok', '=')]
    gaps = [' ', ' ']
    pos = 0
    toks = []
    for m in _TOK.finditer(eq.ctx):
        toks.append((m.group(0), eq.ctx[pos:m.start()]))
        pos = m.end()
    for i, (tok, gap) in enumerate(toks):
        if i > 0:
            gaps.append(gap)
        if tok.startswith('PH') and tok[2:].isdigit():
            leaf = eq.leaves[int(tok[2:])]
            atoms.append(('term', leaf) if isinstance(leaf, programs.Term) else ('tok', leaf.txt))
        else:
            atoms.append(('tok', tok))
    return atoms, gaps[:len(atoms) - 1]


def render_term(t, opt):
    opt = opt or {}
    pre, post = {'v': ('', ''), 'p': ('{', '}'), 'e': ('<', '>')}[t.kind]
    inner = opt.get('inner', t.inner_space)
    if t.kind != 'v' and inner:
        pre, post = pre + ' ', ' ' + post
    base = pre + t.name + post
    idx = t.index_text()
    if opt.get('zero') and idx == '':
        idx = '[0]'
    if idx and opt.get('idx_inner'):
        pad = opt['idx_inner'] if isinstance(opt['idx_inner'], str) else ' '
        idx = '[' + pad + idx[1:-1].strip() + pad + ']'
    text = base + opt.get('pre_bracket', '') + idx
    if opt.get('paren'):
        text = opt['paren'][0] + text + opt['paren'][1]  # redundant parentheses round one operand
    return text


def render_eq(eq, lay=None):
    lay = lay or Layout()
    atoms, gaps = atoms_of(eq)
    parts = []
    for i, (kind, payload) in enumerate(atoms):
        parts.append(render_term(payload, lay.term.get(i)) if kind == 'term' else payload)
    out = parts[0]
    line = 0
    lines_comment = dict(lay.comment)
    for i in range(len(parts) - 1):
        gap = lay.gaps.get(i, gaps[i])
        if lay.wrap == 'rhs' and i == 1:
            out += gap + '('
            gap = ''
        if i in lay.breaks:
            c = lines_comment.pop(line, None)
            out += ('  # ' + c if c else '') + '\n' + lay.between.get(i, '') + '    '
            line += 1
            gap = ''
        out += gap + parts[i + 1]
    if lay.wrap == 'rhs':
        out += ')'
    if lay.wrap == 'all':
        out = '(' + out + ')'
    c = lines_comment.pop(line, None)
    if c:
        out += ('#' + c) if lay.glued_comment else ('  # ' + c)
    return out


def py_tokens(text):
    try:
        return [t.string for t in tokenize.generate_tokens(io.StringIO(text).readline) if t.type not in (tokenize.NEWLINE, tokenize.NL, tokenize.ENDMARKER, tokenize.INDENT, tokenize.DEDENT, tokenize.COMMENT)]
    except Exception:
        return None


def variants_of_eq(eq):
    """Yield (tag, site, Layout) for every single transformation site of one equation."""
    atoms, gaps = atoms_of(eq)
    n = len(atoms)
    base_text = render_eq(eq)
    for i in range(n - 1):
        for extra, name in (('  ', 'space'), (' \t', 'tab')):
            lay = Layout()
            lay.gaps[i] = gaps[i] + extra
            yield ('T3-add-' + name, i, lay)
        if gaps[i] == ' ':
            lay = Layout()
            lay.gaps[i] = ''
            cand = render_eq(eq, lay)
            a, b = atoms[i], atoms[i + 1]
            # neighbours as they are after translation: a term becomes 'self._name[t]' (starts alphanumeric, ends with ']')
            la = ']' if a[0] == 'term' else a[1][-1]
            lb = 's' if b[0] == 'term' else b[1][0]
            both_alnum = (la.isalnum() or la in '_.') and (lb.isalnum() or lb in '_.')
            if not both_alnum and py_tokens(cand) is not None and py_tokens(cand) == py_tokens(base_text):
                yield ('T3-remove', i, lay)
    for i, (kind, payload) in enumerate(atoms):
        if kind != 'term':
            continue
        t = payload
        if t.kind != 'v':
            lay = Layout()
            lay.term[i] = {'inner': not t.inner_space}
            yield ('T4-brace-space', i, lay)
        if t.index_text():
            lay = Layout()
            lay.term[i] = {'idx_inner': True}
            yield ('T4-index-space' + ('-lhs' if i == 0 else ''), i, lay)
            lay = Layout()
            lay.term[i] = {'pre_bracket': ' '}
            yield ('T3b-space-before-bracket' + ('-lhs' if i == 0 else ''), i, lay)
        elif isinstance(t.off, int):
            lay = Layout()
            lay.term[i] = {'zero': True}
            yield ('T5-explicit-zero', i, lay)
    # T6: wrap the right-hand side in parentheses and break after every operator / comma / opening bracket
    for i in range(2, n - 1):
        if atoms[i][0] == 'tok' and re.fullmatch(r'\*\*|<=|>=|==|!=|[-+*/<>,(]|and|or|if|else|not', atoms[i][1]):
            for wrap in ('rhs',):  # '(Y = ...)' with the bracket on the left-hand side is not part of the property (and never parsed)
                lay = Layout()
                lay.wrap = wrap
                lay.breaks.add(i)
                yield ('T6-break-' + wrap, i, lay)
                lay = Layout()
                lay.wrap = wrap
                lay.breaks.add(i)
                lay.comment[0] = 'continued'
                yield ('T6-break-comment-' + wrap, i, lay)
    lay = Layout()
    lay.wrap = 'rhs'
    yield ('T6-paren-only', 0, lay)
    # T6: redundant parentheses round a single right-hand-side operand (with and without blanks inside, and glued to what precedes it)
    for i, (kind, payload) in enumerate(atoms):
        if kind == 'term' and i >= 2:
            for par in (('(', ')'), ('( ', ' )'), ('(\t', '\t)'), ('(  ', '   )'), ('(\n    ', '\n)')):
                lay = Layout()
                lay.term[i] = {'paren': par}
                yield ('T6-paren-operand', i, lay)
                if gaps[i - 1] == ' ' and atoms[i - 1][0] == 'tok' and atoms[i - 1][1] != '=':
                    lay = Layout()
                    lay.term[i] = {'paren': par}
                    lay.gaps[i - 1] = ''
                    yield ('T6-paren-operand-glued', i, lay)
    for text in COMMENT_TEXTS:
        lay = Layout()
        lay.comment[0] = text
        yield ('T1-trailing-comment', 0, lay)
    lay = Layout()
    lay.comment[0] = 'glued to the statement'
    lay.glued_comment = True
    yield ('T1-trailing-comment-glued', 0, lay)
    # T6: inside the brackets of the right-hand side, a line break between a name and its index bracket
    for i, (kind, payload) in enumerate(atoms):
        if kind == 'term' and i >= 2 and payload.index_text():
            for sep in ('\n    ', ' \n', '\n'):
                lay = Layout()
                lay.wrap = 'rhs'
                lay.term[i] = {'pre_bracket': sep}
                yield ('T6-break-before-index', i, lay)
            # ... and a line break (or a tab) just inside the index brackets
            for pad in ('\n    ', '\t'):
                lay = Layout()
                lay.wrap = 'rhs'
                lay.term[i] = {'idx_inner': pad}
                yield ('T6-break-inside-index', i, lay)
    # T2/T1 inside a statement spread over parentheses: a blank line or a comment-only line between two continuation lines
    first_break = next((i for i in range(2, n - 1) if atoms[i][0] == 'tok' and re.fullmatch(r'\*\*|<=|>=|==|!=|[-+*/<>,(]|and|or|if|else|not', atoms[i][1])), None)
    if first_break is not None:
        for tag, text in (('T2-blank-line-inside', '\n'), ('T2-whitespace-line-inside', '      \n'), ('T1-comment-line-inside', '    # only a comment (\n'),
                          ('T1-comment-line-inside', "# it's the second part\n")):
            lay = Layout()
            lay.wrap = 'rhs'
            lay.breaks.add(first_break)
            lay.between[first_break] = text
            yield (tag, first_break, lay)


def all_at_once(eq):
    atoms, gaps = atoms_of(eq)
    lay = Layout()
    for i in range(len(atoms) - 1):
        lay.gaps[i] = gaps[i] + '  '
    for i, (kind, payload) in enumerate(atoms):
        if kind == 'term':
            o = {}
            if payload.kind != 'v':
                o['inner'] = True
            if payload.index_text():
                if i != 0:
                    o['idx_inner'] = True
            elif isinstance(payload.off, int):
                o['zero'] = True
            lay.term[i] = o
    lay.wrap = 'rhs'
    lay.comment[0] = 'everything at once'
    return lay


def sig(symbols):
    return [(s.name, s.type.name, s.lags, s.leads) for s in symbols]


def code_asts(symbols):
    out = {}
    for s in symbols:
        if s.code is not None:
            try:
                out[s.name if s.name is not None else ('verbatim', len(out))] = ast.dump(ast.parse(s.code))
            except SyntaxError:
                out[s.name] = ('unparsable', s.code)
    return out


def parse(script):
    try:
        return fsic.parse_model(script), None
    except (ParserError, SymbolError, IndentationError) as e:
        return None, type(e).__name__
    except Exception as e:
        return None, 'foreign:' + type(e).__name__


def compare(base_syms, script, tag, as_set=False):
    syms, err = parse(script)
    if err:
        return [('%s:rejected:%s' % (tag, err), 'same parse as the base layout', err, 'a layout variant is rejected: %r' % script)]
    a, b = sig(base_syms), sig(syms)
    if (sorted(a, key=repr) != sorted(b, key=repr)) if as_set else (a != b):
        return [('%s:symbols' % tag, a, b, 'symbols differ under a layout change: %r' % script)]
    if code_asts(base_syms) != code_asts(syms):
        return [('%s:code' % tag, code_asts(base_syms), code_asts(syms), 'generated code differs in meaning under a layout change: %r' % script)]
    if tag.startswith(('T6-paren', 'T3-add', 'all-at-once', 'T6-break')):
        # the normal form reached from this layout is a fixed point too (whitespace of the layout must not survive in it)
        return fixed_point(syms, tag + ':')
    return []


def fixed_point(syms, prefix=''):
    out = []
    for s in syms:
        if s.equation is None or '`' in s.equation or s.type.name != 'ENDOGENOUS':
            continue
        if re.search(r"self\['\w+', [^'\"]", s.code or ''):
            continue  # a backticked period index (X[`1`]) loses its backticks in the normal form: excluded by the statement
        text = re.sub(r'\[t([+-]\d+)?\]', lambda m: '[%s]' % (m.group(1) if m.group(1) else '0'), s.equation)
        again, err2 = parse(text)
        if again is None:
            out.append((prefix + 'fixed-point:rejected', 'accepted', err2, 'normalised equation is rejected when fed back: %r' % text))
            continue
        hit = [x for x in again if x.name == s.name]
        if not hit or hit[0].equation != s.equation or hit[0].code != s.code:
            out.append((prefix + 'fixed-point', (s.equation, s.code), (hit[0].equation, hit[0].code) if hit else None, 'normalised equation is not a fixed point'))
    return out


# --------------------------------------------------------------------------- program catalogue


def program_list(tier):
    out, seen = [], set()

    def add(p):
        s = p.script()
        if s not in seen and p.consistent():
            seen.add(s)
            out.append(p)

    names = ['X', 'x1', 'is_open', 'not_X', 'exp', 'Ta', 'case', '_']   # (a soft keyword and the lone underscore are ordinary names)
    for nm in names:
        for kind, sp in programs.S1_KINDS[:3]:
            for off, form in [(0, 'none'), (-1, 'plain'), (2, 'plus'), (-10, 'plain')]:
                term = programs.Term(nm, kind, off, form, sp)
                for ctx in programs.S1_CTX:
                    add(programs.Program([programs.Eq(programs.Term('Y'), ctx, [term])], 'S1'))
                if kind == 'v':
                    add(programs.Program([programs.Eq(programs.Term(nm, 'v', off, form), '2 * PH0', [programs.Term('W', 'v', -1)])], 'S1-lhs'))
    for lab in ("'b'", '"b"', '`1`'):
        for nm, kind in (('X', 'v'), ('a', 'p'), ('e', 'e')):
            add(programs.Program([programs.Eq(programs.Term('Y'), '2 * PH0 - PH1', [programs.Term(nm, kind, ('label', lab)), programs.Term('Z', 'v', -1)])], 'label'))
    extra = [
        ('Y', 'PH0 * PH1 + PH2 * PH3', [('a', 'p', 0), ('YD', 'v', 0), ('b', 'p', 0), ('H', 'v', -1)]),
        ('Y', 'exp(PH0) + log(PH1) - max(PH2, 0, PH3)', [('X', 'v', -1), ('Z', 'v', 0), ('e', 'e', 0), ('W', 'v', 2)]),
        ('Y', 'PH0 if PH1 > 0 and not PH2 else -PH3 ** 2', [('X', 'v', 0), ('Z', 'v', 0), ('W', 'v', 0), ('X', 'v', 1)]),
        ('Y', 'np.sqrt(PH0) / (PH1 - 0.5) >= PH2', [('X', 'v', 0), ('a', 'p', 0), ('e', 'e', -1)]),
    ]
    for lhs, ctx, leaves in extra:
        add(programs.Program([programs.Eq(programs.Term(lhs), ctx, [programs.Term(n, k, o) for n, k, o in leaves])], 'extra'))
    for p in programs.s4(6 if tier == 'quick' else None):
        add(p)
    return out


_PROGS = None


def progs(tier):
    global _PROGS
    if _PROGS is None:
        _PROGS = program_list(tier)
    return _PROGS


def ref_merge(parts):
    """Reference merge of single-statement parses, from the statement: same name -> one symbol."""
    order, acc, verb = [], {}, []
    for syms in parts:
        for s in syms:
            if s.name is None:
                verb.append(tuple(s))
                continue
            if s.name not in acc:
                order.append(s.name)
                acc[s.name] = s
                continue
            o = acc[s.name]
            typ = o.type if o.type == s.type else max(o.type, s.type)

            def pick(f, a, b):
                if isinstance(a, int) and isinstance(b, int):
                    return f(a, b, 0)
                if isinstance(a, int):
                    return a
                if isinstance(b, int):
                    return b
                return 0 if (a is not None and b is not None) else None
            acc[s.name] = o._replace(type=typ, lags=pick(min, o.lags, s.lags), leads=pick(max, o.leads, s.leads),
                                     equation=o.equation if o.equation is not None else s.equation, code=o.code if o.code is not None else s.code)
    return [tuple(acc[n]) for n in order] + verb


@robust()
def run_program(case, p=None):
    if p is None:
        p = next(q for q in progs('thorough') if q.script() == case['script'])
    out = []
    base_script = '\n'.join(render_eq(e) for e in p.eqs)
    base, err = parse(base_script)
    if err:
        case['_variants'] = 0
        case['_base_rejected'] = err
        if err in ('ParserError', 'SymbolError'):
            return []  # C14 is about accepted scripts; rejections of the base layout are judged by C01/C13
        return [('base-rejected:%s' % err, 'accepted', err, 'the base layout of a grammar program is rejected: %r' % base_script)]
    n_variants = 0
    singles = []
    for ei, eq in enumerate(p.eqs):
        for tag, site, lay in variants_of_eq(eq):
            lines = [render_eq(e, lay if j == ei else None) for j, e in enumerate(p.eqs)]
            script = '\n'.join(lines)
            if script == base_script:
                continue
            n_variants += 1
            singles.append((tag, ei, site, lay))
            v = compare(base, script, tag)
            if v:
                out += v
                if len(out) > 6:
                    return out
    # all sites at once
    script = '\n\n'.join(render_eq(e, all_at_once(e)) for e in p.eqs) + '\n'
    out += compare(base, script, 'all-at-once')
    # T2 blank lines / T1 comment-only lines between statements
    for sep, tag in (('\n\n', 'T2-blank-lines'), ('\n# comment only\n', 'T1-comment-line'), ('\n   \n', 'T2-whitespace-line')):
        script = sep.lstrip(' ') + sep.join(render_eq(e) for e in p.eqs) + sep
        out += compare(base, script, tag)
    # pairs of sites of different kinds (thorough)
    if case.get('pairs'):
        for (t1, e1, s1, l1), (t2, e2, s2, l2) in itertools.combinations(singles, 2):
            if t1.split('-')[0] == t2.split('-')[0] or (e1 == e2 and (l1.wrap or l2.wrap) and (l1.wrap and l2.wrap)):
                continue
            if t1.endswith('-lhs') or t2.endswith('-lhs'):
                continue  # left-hand-side bracket spacing is rejected on its own (known findings): pairs add nothing
            if e1 == e2:
                lay = Layout()
                lay.gaps = {**l1.gaps, **l2.gaps}
                lay.term = {**l1.term, **{k: {**l1.term.get(k, {}), **v} for k, v in l2.term.items()}}
                lay.breaks = l1.breaks | l2.breaks
                lay.wrap = l1.wrap or l2.wrap
                lay.comment = {**l1.comment, **l2.comment}
                lines = [render_eq(e, lay if j == e1 else None) for j, e in enumerate(p.eqs)]
            else:
                lines = [render_eq(e, l1 if j == e1 else (l2 if j == e2 else None)) for j, e in enumerate(p.eqs)]
            v = compare(base, '\n'.join(lines), 'pair:%s+%s' % (t1.split('-')[0], t2.split('-')[0]))
            n_variants += 1
            if v:
                out += v
                break
    # T7 permutations: symbols as a set, order = first appearance in the permuted script
    if len(p.eqs) > 1:
        for perm in itertools.permutations(range(len(p.eqs))):
            script = '\n'.join(render_eq(p.eqs[i]) for i in perm)
            out += compare(base, script, 'T7-permutation', as_set=True)
            syms, err = parse(script)
            if syms is not None:
                q = programs.Program([p.eqs[i] for i in perm])
                names = [s.name for s in syms if s.type.name not in ('FUNCTION', 'KEYWORD')]
                want = q.names_in_order()
                if [n for n in names if n in want] != want:
                    out.append(('T7-order', want, names, 'symbols are not in order of first appearance after reordering statements'))
    # merge law
    parts = []
    for e in p.eqs:
        s1, err1 = parse(render_eq(e))
        if s1 is None:
            break
        parts.append(s1)
    else:
        merged = ref_merge(parts)
        if [tuple(s) for s in base] != merged:
            out.append(('merge-law', merged[:4], [tuple(s) for s in base][:4], 'parse of the script differs from the merge of its statements'))
    # fixed point of the normalised equations
    out += fixed_point(base)
    case['_variants'] = n_variants
    return out


FENCE_STATEMENTS = [
    ['```\nself._Y[t] = 1.0\n```', 'Z = Y + X[-1]'],
    ['Z = Y + X[-1]', '```\nif self._Z[t] > 0:\n    self._Y[t] = self._Z[t]\n```'],
    ['`self._Y[t] = 2.0`', 'Z = Y'],
    # the same verbatim statement twice: it runs twice
    ['`self._K[t] = self._K[t] * 2`', 'Z = K', '`self._K[t] = self._K[t] * 2`'],
    ['```\nself._K[t] += 1\n```', '```\nself._K[t] += 1\n```', 'Z = K + X'],
    # nested bodies, several levels of indentation
    ['```\nfor i in range(2):\n    if self._Z[t] > i:\n        self._Y[t] = i\n    self._W[t] = i\nself._V[t] = 1\n```', 'Z = Y + W[-1] + V[1]'],
    ['`self._Y[t] = (1 +\n 2)`', 'Z = Y'],
    # equations with two and three inline verbatim excerpts on one line (each excerpt is a term of its own)
    ['A = B + 1', 'E = `self._A[t]` + F[1] * `self._B[t]`', 'B = X'],
    ['E = max(`self._A[t]`, `2.0`) + `self._B[t-1]` * X[`11`]', 'A = X', 'B = X[-1]'],
]
FENCE_BASES = ['\n'.join(st) for st in FENCE_STATEMENTS]


def fence_variants(base):
    lines = base.split('\n')
    inside = False
    for i, line in enumerate(lines):
        fence_line = line.startswith('```')
        inline = line.startswith('`') and line.endswith('`') and not fence_line
        if fence_line or inline:
            yield 'T1-comment-on-fence-line', '\n'.join(lines[:i] + [line + '  # comment (with a bracket'] + lines[i + 1:])
        elif inside:
            # a comment or blanks after a line of verbatim code: the code (and its indentation) stays what it was
            yield 'T1-comment-inside-fence', '\n'.join(lines[:i] + [line + '  # note'] + lines[i + 1:])
            # a blank, a whitespace-only or a comment-only line between the lines of a fenced block (before this line; after the last one)
            for filler, tag in (('', 'T2-blank-line-inside-fence'), ('    ', 'T2-whitespace-line-inside-fence'), ('# only a comment', 'T1-comment-line-inside-fence')):
                yield tag, '\n'.join(lines[:i] + [filler] + lines[i:])
                if i + 1 < len(lines) and lines[i + 1].startswith('```'):
                    yield tag, '\n'.join(lines[:i + 1] + [filler] + lines[i + 1:])
        elif not line.startswith((' ', '`')) and '`' not in line:
            yield 'T1-comment-after-equation', '\n'.join(lines[:i] + [line + '  # note'] + lines[i + 1:])
        for blank in (' ', '   ', '\t'):
            yield 'T3-trailing-blank', '\n'.join(lines[:i] + [line + blank] + lines[i + 1:])
        if fence_line:
            inside = not inside
    yield 'T3-trailing-blank-everywhere', '\n'.join(line + '  ' for line in lines)
    yield 'T2-blank-lines', '\n\n' + base.replace('```\nZ', '```\n\nZ').replace('\n```\nif', '\n\n```\nif') + '\n\n'
    yield 'T1-comment-lines', '# leading comment\n' + base + '\n# trailing comment'
    yield 'T2-trailing-newlines', base + '\n \n'


@robust()
def run_fence(case):
    base = FENCE_BASES[case['i']]
    statements = FENCE_STATEMENTS[case['i']]
    syms, err = parse(base)
    if err:
        return [('fence:base-rejected:%s' % err, 'accepted', err, 'base script with a verbatim block rejected: %r' % base)]
    out = []
    for tag, script in fence_variants(base):
        out += compare(syms, script, 'fence:' + tag)
    # every verbatim statement of the script is a verbatim symbol of the parse, in order, with its code unchanged
    want = [st.strip('`\n') for st in statements if st.startswith('`')]
    got = [x.code for x in syms if x.type.name == 'VERBATIM']
    if want != got:
        out.append(('fence:verbatim-blocks', want, got, 'the verbatim statements of the script are not the verbatim symbols of its parse'))
    # merge law: the script parses to the merge of its statements parsed one at a time
    parts = []
    for st in statements:
        r, err = parse(st)
        if err:
            out.append(('fence:statement-rejected:%s' % err, 'accepted', err, 'a statement of an accepted script is rejected on its own: %r' % st))
            return out
        parts.append(r)
    if ref_merge(parts) != [tuple(x) for x in syms]:
        out.append(('fence:merge', ref_merge(parts), [tuple(x) for x in syms], 'the script does not parse to the merge of its statements'))
    # reordering statements only reorders symbols
    if len(statements) <= 3:
        for perm in itertools.permutations(range(len(statements))):
            r, err = parse('\n'.join(statements[j] for j in perm))
            if err:
                out.append(('fence:T7-rejected:%s' % err, 'accepted', err, 'a reordering of the statements is rejected'))
                break
            if sorted(sig(r), key=repr) != sorted(sig(syms), key=repr) or sorted(x.code for x in r if x.code) != sorted(x.code for x in syms if x.code):
                out.append(('fence:T7-permutation', sig(syms), sig(r), 'reordering statements changes more than the order of the symbols'))
                break
    return out


def blocks(tier, seed):
    nb = 64 if tier == 'quick' else 128
    return [{'b': b, 'nb': nb} for b in range(nb)] + [{'fence': True}]


def run_block(block, tier, seed):
    acc = Acc()
    if block.get('fence'):
        for i in range(len(FENCE_BASES)):
            case = {'kind': 'fence', 'i': i, 'script': FENCE_BASES[i]}
            k = len(list(fence_variants(FENCE_BASES[i])))
            acc.evaluations += k
            acc.nontrivial += k
            for key, exp, obs, what in run_fence(case):
                acc.violation(key, case, exp, obs, what)
        return acc
    for i, p in enumerate(progs(tier)):
        if i % block['nb'] != block['b']:
            continue
        case = {'script': p.script(), 'pairs': tier != 'quick' and len(p.eqs) == 1}
        try:
            with guard(120):
                v = run_program(case, p)
        except CaseTimeout:
            acc.violation('timeout', case, 'termination', 'timeout')
            continue
        k = case.pop('_variants', 0)
        if case.pop('_base_rejected', None):
            acc.n('base_layout_rejected')
        acc.evaluations += k + 1
        acc.nontrivial += k
        acc.n('programs')
        for key, exp, obs, what in v:
            acc.violation(key, case, exp, obs, what)
        if i == block['b']:
            acc.sample({'script': p.script(), 'variant_example': render_eq(p.eqs[0], all_at_once(p.eqs[0]))}, limit=1)
    return acc


def run_one(case):
    if case.get('kind') == 'fence':
        return run_fence(case)
    return run_program(dict(case))


def finalize(acc, tier, seed):
    return {'programs': len(progs(tier))}
