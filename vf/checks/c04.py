# -*- coding: utf-8 -*-
"""C04 - solving a period touches only that period; reads never wrap round the span.

Deciding step: bounded exhaustive enumeration of programs with lags/leads (S1 index forms, S4 systems) x span
lengths L+1..L+3 x EVERY period position t in [-len, len) (both spellings, the infeasible ends included) x
option representatives x every (start, end) pair for solve(); each solve runs on recording arrays (raw index
of every read/write) with full before/after snapshots.
"""
import itertools

import numpy as np

import fsic
from fsic.extensions import AliasMixin, ProgressBarMixin, TracerMixin
from fsic.exceptions import ParserError, SymbolError

from .. import programs, recarray, refsolve
from ..core.runner import Acc, guard, CaseTimeout, robust

ID = 'C04'
LEVEL = 'exploration'
TECHNIQUE = 'bounded exhaustive enumeration of programs x span lengths x every period position x options on recording arrays (raw read/write index log) with before/after snapshots'
RULE = ('programs: S1 index forms (variables/parameters/errors, RHS and LHS offsets) + all S4 systems over 6 (quick) / 12 (thorough) right-hand sides + 8 programs mixing a named period with lags/leads; span lengths '
        'LAGS+LEADS+1..+3; every t in [-len, len); options {plain, errors=ignore, offset -1/+1, min_iter>max_iter, pre-existing NaN}; solve() over every (start, end) pair. '
        'non-trivial = solve that performs at least one evaluation pass or is rejected'
        ' Linker-driven solves: 3 scripts x lengths 4,5 x 1,2 submodels x every t in [-len, len) x every offset in [-len-1, len+1]: an offset outside the span is refused with IndexError and nothing written, otherwise only period t changes.'
        ' catch_first_error=False with pre-existing non-finite values; linker solves restricted to one of two submodels; a second solve() refused at its first period; an alias spelled like an endogenous variable and non-finite inputs x 6 option sets: inputs are never written.'
        ' Linker family also with an explicitly empty selection; the alias/non-finite-input family also with a check list that holds an exogenous variable or is narrower than the endogenous list.')
ASSUMPTIONS = [
    'the recording arrays are installed in the instance storage the property anchors name (obj.__dict__["_" + name])',
    'an explicit request for an infeasible period may raise any exception class',
]


def program_list(tier):
    out = []
    seen = set()
    for nm in ('X', 'a1', '_u'):   # (a name with a leading underscore is addressed through another code path in the generated code)
        for kind, sp in programs.S1_KINDS[:3]:
            for off, form in programs.S1_IDX:
                for ctx in ('PH0', '2 * PH0 - 1'):
                    p = programs.Program([programs.Eq(programs.Term('Y'), ctx, [programs.Term(nm, kind, off, form, sp)])], 'S1')
                    if p.script() not in seen:
                        seen.add(p.script())
                        out.append(p)
    for off, form in programs.S1_IDX:
        p = programs.Program([programs.Eq(programs.Term('Y', 'v', off, form), '2 * PH0', [programs.Term('W', 'v', -1)])], 'S1-lhs')
        if p.script() not in seen:
            seen.add(p.script())
            out.append(p)
    extra = [
        ('Y', 'PH0 + PH1', [('Y', -1), ('Y', 1)]), ('Y', 'PH0 * 0.5 + PH1', [('Y', -2), ('X', 2)]),
        ('Y', 'max(PH0, PH1) + PH2', [('X', -1), ('Z', 1), ('Y', -1)]),
    ]
    for lhs, ctx, leaves in extra:
        out.append(programs.Program([programs.Eq(programs.Term(lhs), ctx, [programs.Term(n, 'v', o) for n, o in leaves])], 'extra'))
    # a named period (label 0 sits at position 2 of every span used here) mixed with lags/leads of the same variable, either order
    LAB = ('label', '`0`')
    for ctx, leaves in [('PH0 / PH1', [('C', -1), ('C', LAB)]), ('PH0 / PH1', [('C', LAB), ('C', -1)]), ('PH0 + PH1', [('C', 2), ('C', LAB)]),
                        ('PH0 + PH1', [('C', LAB), ('C', 2)]), ('PH0 + PH1 - PH2', [('C', -2), ('C', LAB), ('C', 1)]), ('PH0 * PH1', [('X', LAB), ('Y', -1)]),
                        ('PH0 + PH1', [('Y', -1), ('Y', LAB)]), ('PH0', [('C', LAB)])]:
        out.append(programs.Program([programs.Eq(programs.Term('Y'), ctx, [programs.Term(n, 'v', o) for n, o in leaves])], 'label-mix'))
    for p in programs.s4(6 if tier == 'quick' else None):
        if p.consistent() and p.script() not in seen:
            seen.add(p.script())
            out.append(p)
    return out


_PROGS = None


def progs(tier):
    global _PROGS
    if _PROGS is None:
        _PROGS = program_list(tier)
    return _PROGS


def blocks(tier, seed):
    n = len(progs(tier))
    nb = 128
    return [{'b': b, 'nb': nb} for b in range(nb)] + [{'solve': True, 'b': b, 'nb': 16} for b in range(16)] + [{'linker': True}]


OPTIONS = [
    ('plain', dict(max_iter=4, failures='ignore')),
    ('errors-ignore', dict(max_iter=3, failures='ignore', errors='ignore')),
    ('offset-1', dict(max_iter=3, failures='ignore', offset=-1)),
    ('offset+1', dict(max_iter=3, failures='ignore', offset=1)),
    ('min>max', dict(max_iter=2, min_iter=3)),
    ('min>max+offset', dict(max_iter=2, min_iter=3, offset=-1)),
    ('pre-nan+offset', dict(max_iter=3, failures='ignore', offset=1)),
    ('pre-nan', dict(max_iter=3, failures='ignore')),
    ('pre-inf', dict(max_iter=3, failures='ignore')),
    ('raise', dict(max_iter=2)),
    ('pre-nan-after-solve', dict(max_iter=4, failures='ignore')),
]


def build(p):
    symbols = fsic.parse_model(p.script())
    return fsic.build_model(symbols)


# the same model reached another way: the class text without type hints; the class with the library's mixins stacked on it (unused)
BUILD_ROUTES = ['default', 'untyped', 'stacked-mixins']


def model_for(p, Model, route):
    if route == 'default':
        return Model
    if route == 'untyped':
        return fsic.build_model(fsic.parse_model(p.script()), with_type_hints=False)
    return type('Stacked', (ProgressBarMixin, AliasMixin, TracerMixin, Model), {'ALIASES': {}})


def fresh(Model, n):
    m = Model(range(-2, n - 2))  # the span contains the label 0 (a falsy label) away from its ends
    for j, name in enumerate(m.names):
        m[name] = [0.5 + 0.25 * j + 0.125 * k for k in range(n)]
    return m


def snapshot(m):
    return {name: m[name].copy() for name in m.index}


def changed(before, m):
    out = set()
    for name in m.index:
        a, b = before[name], np.asarray(m[name])
        for i in range(len(b)):
            x, y = a[i], b[i]
            if not (x == y or (x != x and y != y)):
                out.add((name, i))
    return out


@robust(1, "exception")
def run_case(case, p=None, Model=None):
    if p is None:
        p = next(q for q in progs('thorough') if q.script() == case['script'])
        Model = build(p)
    n, t, optname = case['n'], case['t'], case['opt']
    kw = dict(dict(OPTIONS)[optname])
    lags, leads = p.lags_leads()
    pos = t + n if t < 0 else t
    m = fresh(Model, n)
    endo = list(Model.ENDOGENOUS)
    if optname in ('pre-nan', 'pre-inf') and 0 <= pos < n:
        m[endo[0]][pos] = np.nan if optname == 'pre-nan' else (np.inf if pos % 2 else -np.inf)   # any non-finite value, not only NaN
        kw['errors'] = case.get('errors', 'raise')
        if case.get('cfe') is False:
            kw['catch_first_error'] = False   # (the up-front refusal does not depend on how errors inside the passes are caught)
    if optname == 'pre-nan+offset' and 0 <= pos + 1 < n:
        m[endo[0]][pos + 1] = np.nan  # the non-finite value sits in the period the offset copies FROM
        kw['errors'] = 'raise'
    if optname == 'pre-nan-after-solve' and lags <= pos < n - leads:
        # history: the period was solved before; a NaN then appears in a check variable; the new call is rejected and changes nothing
        refsolve.call_outcome(m.solve_t, t, max_iter=4, failures='ignore')
        m[endo[0]][pos] = np.nan
        kw['errors'] = 'raise'
    before = snapshot(m)
    recarray.install(m)
    del recarray.LOG[:]
    res, cause, _ = refsolve.call_outcome(m.solve_t, t, **kw)
    log = list(recarray.LOG)
    recarray.uninstall(m)
    ch = changed(before, m)
    out = []
    feasible = lags <= pos < n - leads
    offset = kw.get('offset', 0)
    rejected_upfront = (optname.startswith('min>max')) or (offset and not (0 <= pos + offset < n)) or (optname in ('pre-nan', 'pre-inf', 'pre-nan-after-solve') and kw.get('errors') == 'raise')
    if optname == 'pre-nan+offset':
        # rejected (pre-existing non-finite check value once the offset copy is made); the copied endogenous values at t are the only change allowed
        if not feasible_pos(lags, leads, pos, n) or not (0 <= pos + 1 < n):
            pass
        else:
            out = []
            if res in ('True', 'False'):
                out.append(('not-rejected:pre-nan+offset', 'SolutionError', res, 'non-finite check values copied in by the offset must be rejected under errors=raise'))
            stray = ch - {(nm, pos) for nm in endo}
            if stray:
                out.append(('rejected-but-changed:pre-nan+offset', [], sorted(stray)[:4], 'a rejected call changed cells other than the offset copy'))
            return out, 'rejected'
    # 1. exogenous / parameter / error series never change
    non_endo = [x for x in ch if x[0] not in endo and x[0] not in ('status', 'iterations')]
    if non_endo:
        out.append(('exogenous-changed', [], sorted(non_endo)[:4], 'solving changed an exogenous variable, parameter or error'))
    # 2. up-front rejections change nothing
    if rejected_upfront:
        if res in ('True', 'False'):
            out.append(('not-rejected:%s' % optname, 'exception', res, 'a call that must be rejected up front was served'))
        if ch:
            out.append(('rejected-but-changed:%s' % optname, [], sorted(ch)[:4], 'a call rejected up front changed the model'))
        return out, 'rejected'
    # 3. infeasible periods must be rejected, not served from the opposite end
    if not feasible:
        if res in ('True', 'False'):
            wrapped = [(k, nm, r) for k, nm, r in log if k == 'r' and nm in Model.NAMES and not (0 <= pos + (r - t) < n)]
            out.append(('infeasible-period-served:%s' % ('lag' if pos < lags else 'lead'), 'rejected', [res, wrapped[:3]],
                        'a period that cannot accommodate the lags/leads was solved (reads wrapped round the span)'))
        elif ch - {('status', pos), ('iterations', pos)}:
            out.append(('infeasible-period-changed', [], sorted(ch)[:4], 'a rejected infeasible period changed values'))
        return out, 'infeasible'
    # 4. reads address exactly pos+k inside the span
    allowed_reads = set()
    label_reads = set()
    for e in p.eqs:
        for term in e.terms_in_text_order()[1:]:
            if isinstance(term.off, int):
                allowed_reads.add((term.name, term.off))
            else:
                label_reads.add((term.name, 2))  # the label 0 is at position 2 of the span
    for k, nm, r in log:
        if nm not in Model.NAMES:
            continue
        if k == 'r' and (nm, r) in label_reads:
            continue  # a read at a named period addresses that period, wherever t is
        off = r - t
        if not (0 <= pos + off < n):
            out.append(('read-wrapped', 'inside the span', [k, nm, r, t], 'an access while solving a feasible period addressed a period outside the span'))
            break
        if k == 'r' and (nm, off) not in allowed_reads and not (nm in endo and off in (0, offset)):
            out.append(('read-not-written-in-script', sorted(allowed_reads), [nm, off], 'a series was read at a lag/lead the script does not contain'))
            break
    # 5. changed cells are only the assigned ones for t, plus status/iterations at t
    allowed_writes = {('status', pos), ('iterations', pos)}
    for e in p.eqs:
        allowed_writes.add((e.lhs.name, pos + e.lhs.off))
    if offset:
        allowed_writes |= {(nm, pos) for nm in endo}
    stray = ch - allowed_writes
    if stray:
        out.append(('stray-write', sorted(allowed_writes), sorted(stray)[:4], 'solving period t changed a cell outside period t'))
    return out, 'solved'


@robust()
def feasible_pos(lags, leads, pos, n):
    return lags <= pos < n - leads


def run_solve_case(case, p=None, Model=None):
    """solve(start, end): touches only [start..end]; an infeasible start/end is rejected, not wrapped."""
    if p is None:
        p = next(q for q in progs('thorough') if q.script() == case['script'])
        Model = model_for(p, build(p), case.get('route', 'default'))
    n, si, ei = case['n'], case['si'], case['ei']
    lags, leads = p.lags_leads()
    m = fresh(Model, n)
    before = snapshot(m)
    labels = list(m.span)
    kw = dict(max_iter=3, failures='ignore')
    res, cause, val = refsolve.call_outcome(m.solve, start=None if si is None else labels[si], end=None if ei is None else labels[ei], **kw)
    ch = changed(before, m)
    s0 = lags if si is None else si
    e0 = n - 1 - leads if ei is None else ei
    out = []
    endo = list(Model.ENDOGENOUS)
    touched = {i for nm, i in ch}
    lhs_offs = [e.lhs.off for e in p.eqs]
    lo, hi = s0 + min(lhs_offs + [0]), e0 + max(lhs_offs + [0])
    if any(i < lo or i > hi for i in touched):
        out.append(('solve:outside-range', [lo, hi], sorted(touched), 'solve(start, end) changed periods outside start..end'))
    if [x for x in ch if x[0] not in endo and x[0] not in ('status', 'iterations')]:
        out.append(('solve:exogenous-changed', [], sorted(ch)[:3], 'solve() changed an exogenous series'))
    infeasible = [q for q in range(s0, e0 + 1) if not (lags <= q < n - leads)]
    if infeasible and res == 'value':
        out.append(('solve:infeasible-period-served', 'rejected', val[1], 'solve() served periods that cannot accommodate the lags/leads'))
    if si is None and ei is None and res == 'value':
        if list(val[1]) != list(range(lags, n - leads)):
            out.append(('solve:default-range', list(range(lags, n - leads)), list(val[1]), 'default range is not the set of feasible periods'))
    if not out and res == 'value' and e0 > s0 and not infeasible and endo and not any(lhs_offs):
        # a second run over the solved range that is refused at its first period (a NaN has appeared in a check variable there):
        # the later periods - solved by the first run, never reached by the second - keep values, status and iteration counts
        m[endo[0]][s0] = np.nan
        before2 = snapshot(m)
        r2 = refsolve.call_outcome(m.solve, start=None if si is None else labels[si], end=None if ei is None else labels[ei], errors='raise', **kw)
        ch2 = changed(before2, m)
        if r2[0] != 'SolutionError' or ch2:
            out.append(('solve:second-run-refused-at-first-period', ['SolutionError', []], [r2[0], sorted(ch2)[:4]], 'a run refused at its first period changed periods it never reached'))
    return out


def run_block(block, tier, seed):
    acc = Acc()
    if block.get('linker'):
        for shadow in (True, False):
            for n in (4, 5):
                for t in range(1, n):
                    for kw in (dict(max_iter=3, failures='ignore'), dict(max_iter=3, failures='ignore', offset=-1), dict(max_iter=3, failures='ignore', offset=1),
                               dict(max_iter=4, failures='ignore', errors='replace'), dict(max_iter=4, failures='ignore', errors='ignore'), dict(max_iter=2, failures='ignore', errors='skip')):
                        for nonfinite in (False, True):
                            if kw.get('offset') and not (0 <= t + kw['offset'] < n):
                                continue
                            for check_list in ((None, 'with-exogenous', 'narrowed') if not nonfinite else (None,)):
                                case = dict(kind='shadow', shadow=shadow, n=n, t=t, kw=kw, nonfinite_input=nonfinite, check_list=check_list)
                                acc.evaluations += 1
                                acc.nontrivial += 1
                                for key, exp, obs, what in run_shadow_case(case):
                                    acc.violation(key + (':check-list-' + check_list if check_list else ''), case, exp, obs, what)
        for script in _LK_SCRIPTS:
            for n in (4, 5):
                for nsub in (1, 2):
                    for t in range(-n, n):
                        for offset in range(-n - 1, n + 2):
                            for select in ((False, True, 'none') if nsub == 2 else (False, 'none')):
                                case = dict(kind='linker', script=script, n=n, t=t, offset=offset, nsub=nsub, select=select)
                                acc.evaluations += 1
                                acc.nontrivial += 1
                                try:
                                    with guard(10):
                                        v = run_linker_case(case)
                                except CaseTimeout:
                                    acc.violation('timeout', case, 'termination', 'timeout')
                                    continue
                                for key, exp, obs, what in v:
                                    acc.violation(key, case, exp, obs, what)
        return acc
    plist = progs(tier)
    for i, p in enumerate(plist):
        if i % block['nb'] != block['b']:
            continue
        try:
            Model = build(p)
        except (ParserError, SymbolError):
            acc.outcome('rejected-by-parser')
            continue
        lags, leads = p.lags_leads()
        L = lags + leads
        if block.get('solve'):
            n = L + 2
            for route in BUILD_ROUTES:
                M = model_for(p, Model, route)
                for si, ei in itertools.product([None] + list(range(n)), repeat=2):
                    case = dict(kind='solve', script=p.script(), n=n, si=si, ei=ei, route=route)
                    acc.evaluations += 1
                    acc.nontrivial += 1
                    try:
                        with guard(10):
                            v = run_solve_case(case, p, M)
                    except CaseTimeout:
                        acc.violation('timeout', case, 'termination', 'timeout')
                        continue
                    for key, exp, obs, what in v:
                        acc.violation(key + ('' if route == 'default' else ':' + route), case, exp, obs, what)
            continue
        for n in range(L + 1, L + 4):
            for t in range(-n, n):
                for optname, _ in OPTIONS:
                    variants = [None] if optname not in ('pre-nan', 'pre-inf') else ['raise', 'ignore', 'raise:cfe=False']
                    for ev in variants:
                        case = dict(kind='solve_t', script=p.script(), n=n, t=t, opt=optname)
                        if ev:
                            case['errors'] = ev.split(':')[0]
                            if ev.endswith('cfe=False'):
                                case['cfe'] = False
                        acc.evaluations += 1
                        try:
                            with guard(10):
                                v, outcome = run_case(case, p, Model)
                        except CaseTimeout:
                            acc.violation('timeout', case, 'termination', 'timeout')
                            continue
                        acc.nontrivial += 1
                        acc.outcome(outcome)
                        for key, exp, obs, what in v:
                            acc.violation(key, case, exp, obs, what)
        if i == block['b']:
            acc.sample(dict(script=p.script(), n=L + 2, t=0, opt='plain'), limit=1)
    return acc


_LK_SCRIPTS = ['Y = 0.5 * Y[-1] + X', 'Y = 0.25 * (Y[-1] + Y[1]) + X[-2]', 'Y = X + 1\nZ = Y[-1] * 0.5']


def run_linker_case(case):
    """The same containment for a period solved through a linker: every t in [-len, len), every offset; an offset that points outside
    the span is refused with IndexError before anything is written, anything else writes only period t (linker and submodels)."""
    from fsic.core import BaseLinker
    Model = fsic.build_model(fsic.parse_model(case['script']))
    n, t, offset, nsub = case['n'], case['t'], case['offset'], case['nsub']
    subs = {}
    for k in range(nsub):
        m = Model(range(-2, n - 2))
        for j, name in enumerate(m.names):
            m[name] = [0.5 + 0.25 * j + 0.125 * q + k for q in range(n)]
        subs['s%d' % k] = m
    lk = BaseLinker(subs)
    pos = t + n if t < 0 else t
    objs = [('linker', lk)] + list(subs.items())
    before = {tag: {name: o[name].copy() for name in o.index} for tag, o in objs}
    kw = {}
    if case.get('select') == 'none':
        kw['submodels'] = []       # an explicitly empty selection: the linker's own equations only, no submodel is touched
    elif case.get('select'):
        kw['submodels'] = ['s0']   # only the first submodel takes part: the others are not touched at all
    res, cause, _ = refsolve.call_outcome(lk.solve_t, t, offset=offset, max_iter=3, failures='ignore', **kw)
    out = []
    touched = sorted((tag, name, int(q)) for tag, o in objs for name in o.index for q in range(n)
                     if before[tag][name][q] != o[name][q] and not (before[tag][name][q] != before[tag][name][q] and o[name][q] != o[name][q]))
    lags, leads = Model.LAGS, Model.LEADS
    if offset and not (0 <= pos + offset < n):
        if res != 'IndexError':
            out.append(('linker:offset-out-of-span:not-rejected', 'IndexError', res, 'a linker solve with an offset that points outside the span must be refused'))
        if touched:
            out.append(('linker:offset-out-of-span:state-changed', [], touched[:4], 'a refused linker solve changed something'))
    else:
        stray = [x for x in touched if x[2] != pos]
        if stray:
            out.append(('linker:other-period-touched', [], stray[:4], 'a linker solve of one period changed another period'))
        outside = [x for x in touched if case.get('select') and (x[0] not in ('linker', 's0') or (case.get('select') == 'none' and x[0] != 'linker'))]
        if outside:
            out.append(('linker:unselected-submodel-touched', [], outside[:4], 'a linker solve restricted to one submodel changed another submodel'))
    return out


_SHADOW = {}


@robust()
def run_shadow_case(case):
    """An alias spelled like an endogenous variable (ALIASES = {'Y': 'X'}): the solver works on the variables themselves, so an
    offset copy, the passes and errors='replace' still change only endogenous cells of period t."""
    if 'cls' not in _SHADOW:
        base = fsic.build_model(fsic.parse_model('Y = 0.5 * Y[-1] + X + {a}\nZ = Y / (X - 2)'))
        _SHADOW['cls'] = type('Shadowed', (AliasMixin, base), {'ALIASES': {'Y': 'X', 'Z': 'a'}})
        _SHADOW['plain'] = base
    n, t, kw = case['n'], case['t'], dict(case['kw'])
    m = (_SHADOW['cls'] if case['shadow'] else _SHADOW['plain'])(range(n))
    for j, name in enumerate(('Y', 'Z', 'X', 'a')):
        m.__dict__['_' + name][:] = [0.5 + j + 0.25 * q for q in range(n)]
    if case.get('check_list') == 'with-exogenous':
        m.check = list(m.check) + ['X']      # convergence is also watched on an input: it is still an input
    elif case.get('check_list') == 'narrowed':
        m.check = ['Z']
    if case.get('nonfinite_input'):
        m.__dict__['_X'][t] = 2.0            # Z divides by zero at t ...
        m.__dict__['_a'][t] = np.inf         # ... and a parameter is infinite there: inputs are never written to
    before = {name: m.__dict__['_' + name].copy() for name in ('Y', 'Z', 'X', 'a', 'status', 'iterations')}
    res, cause, _ = refsolve.call_outcome(m.solve_t, t, **kw)
    out = []
    for name in ('X', 'a'):
        if m.__dict__['_' + name].tobytes() != before[name].tobytes():
            out.append(('inputs-changed:%s' % ('alias-shadow' if case['shadow'] else 'plain'), before[name].tolist(), m.__dict__['_' + name].tolist(), 'solving a period changed the exogenous variable / parameter %s' % name))
            return out
    for name in ('Y', 'Z', 'status', 'iterations'):
        now = m.__dict__['_' + name]
        stray = [q for q in range(n) if q != t and now[q:q + 1].tobytes() != before[name][q:q + 1].tobytes()]
        if stray:
            out.append(('other-period-changed:%s' % ('alias-shadow' if case['shadow'] else 'plain'), [], [name, stray], 'solving period %d changed another period' % t))
            return out
    return out


def run_one(case):
    if case['kind'] == 'shadow':
        return run_shadow_case(case)
    if case['kind'] == 'linker':
        return run_linker_case(case)
    if case['kind'] == 'solve':
        return run_solve_case(case)
    return run_case(case)[0]


def finalize(acc, tier, seed):
    return {'programs': len(progs(tier))}
