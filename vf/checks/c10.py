# -*- coding: utf-8 -*-
"""C10 - label-based access addresses exactly the labelled periods.

Deciding step: exhaustive enumeration of spans (every supported type, every length up to a bound) x every
label x every (start, stop, step) triple over labels U {None, absent label} x get/set, and every ordered pair
(write path, read path); positions are computed from a plain Python list of the labels.
"""
import itertools

import numpy as np

from fsic.core import VectorContainer
from fsic.extensions import AliasMixin
from fsic.extensions.model import PandasIndexFeaturesMixin
import fsic

from .. import spans
from ..core.observe import canon
from ..core.runner import Acc, guard, CaseTimeout

ID = 'C10'
LEVEL = 'exploration'
TECHNIQUE = 'bounded exhaustive enumeration of spans x labels x slice triples x access-path pairs against list-index reference'
RULE = ('17 span types (unsorted NumPy labels, labels that are variable/alias/attribute names) x lengths 1..4 (quick) / 1..6 (thorough) x {VectorContainer, parser-built model, aliased model} x every label get / set (set on every variable of the object, status and iterations included), every (start,stop,step) with '
        'start/stop in labels+None+absent and step in {None,1,2,3} get/set, every (write path, position, read path) triple. '
        'non-trivial = access that addresses at least one cell or must be rejected with KeyError'
        " After each label write: the same write to a variable filled from a sibling's array (attribute, replace_values, add_variable) or from an array shared with a second variable: one cell of one variable changes, the caller's array does not."
        ' Fourth object kind: the pandas extension; label writes after reindex(); prepared writes after a refused add_variable and after `values = kept array`; tuple absent labels on NumPy spans too.'
        ' Span types include range(2000, ..., 5); label slices assigned from list / tuple / ndarray with one value per addressed period.')
ASSUMPTIONS = [
    'pandas partial-string labels, duplicate labels, labels equal under == and None as a slice bound are outside the property',
    'positions come from list(span).index(label)',
]

_MODEL = fsic.build_model(fsic.parse_model('Y = X'))


class _ALIASED(AliasMixin, _MODEL):
    # alias names and alias targets that are also period labels of the 'list_names' span
    ALIASES = {'GDP': 'Y', 'cap': 'K', 'out': 'GDP'}


class _PEXT(PandasIndexFeaturesMixin, _MODEL):
    pass


def make(kind, n, obj):
    span, labels = spans.make(kind, n)
    if obj == 'container':
        c = VectorContainer(span)
        c.add_variable('Y', [1.5 + i for i in range(n)])
        c.add_variable('K', [10 * (i + 1) for i in range(n)])
    else:
        c = {'model': _MODEL, 'aliased': _ALIASED, 'pandas-ext': _PEXT}[obj](span, Y=[1.5 + i for i in range(n)])
        c.add_variable('K', [10 * (i + 1) for i in range(n)], dtype=int)
    return c, labels


def snap(c):
    return {n: c[n].copy() for n in c.index if c[n].dtype != object}


def same(a, b):
    return canon(np.asarray(a)) == canon(np.asarray(b))


def blocks(tier, seed):
    top = 4 if tier == 'quick' else 6
    out = []
    for kind in spans.SPAN_TYPES:
        for n in range(1, min(top, spans.MAX_LEN.get(kind, top)) + 1):
            for obj in ('container', 'model', 'aliased', 'pandas-ext'):
                out.append({'span': kind, 'n': n, 'obj': obj})
    return out


def bound_ok(x):
    return x is not None  # None as a label cannot be a slice bound: in a slice it means "open end"


def alt_labels(label):
    """Other spellings of the same label (equal under ==, as list.index sees them): what indexing an array or a pandas object hands back."""
    import datetime
    import pandas as pd
    out = []
    if isinstance(label, bool) or label is None:
        return out
    if isinstance(label, (int, np.integer)):
        out += [np.int64(label), np.int32(label), float(label), np.float64(label)]
    elif isinstance(label, str):
        out += [np.str_(label)]
    elif isinstance(label, pd.Timestamp):
        out += [np.datetime64(label, 'D'), np.datetime64(label, 'ns'), np.datetime64(label, 's'), label.to_pydatetime()]
    return out


def extra_absent(labels):
    """Labels that are NOT in the span but convert (int(), str()) to one that is."""
    out = []
    for label in labels[:2]:
        if isinstance(label, (int, np.integer)) and not isinstance(label, bool):
            lo, hi = min(int(x) for x in labels if isinstance(x, (int, np.integer)) and not isinstance(x, bool)), max(int(x) for x in labels if isinstance(x, (int, np.integer)) and not isinstance(x, bool))
            out += [int(label) + 0.5, np.float64(int(label) + 0.25), str(label), -(abs(int(label)) + 0.5),
                    np.int64(lo - 1), np.int32(lo - 5), np.int64(hi + 1), np.int16(lo - len(labels))]   # NumPy integers just outside the span
        elif isinstance(label, str):
            out += [label + ' ', label.upper() if label.upper() != label else label.lower()]
    return [x for x in out if not any(_eq(x, l) for l in labels)]


def _eq(a, b):
    try:
        return bool(a == b)
    except Exception:
        return False


def run_label_case(case):
    kind, n, obj, i, mode = case['span'], case['n'], case['obj'], case['i'], case['mode']
    c, labels = make(kind, n, obj)
    out = []
    if isinstance(i, (list, tuple)) and i[0] == 'alt':
        # another spelling of label number i[1]: it addresses the same period (or is rejected with KeyError - never another period)
        label = alt_labels(labels[i[1]])[i[2]]
        try:
            pos = labels.index(label)
        except Exception:
            return out
        if pos != i[1]:
            return out
        before = snap(c)
        try:
            got = c['Y', label] if mode == 'get' else c.__setitem__(('K', label), -7)
        except Exception as e:
            return [('alt-label:%s:%s' % (mode, type(e).__name__), 'the period of the label', repr(e)[:120], 'an equal spelling %r (%s) of a label that list(span).index() finds is rejected' % (label, type(label).__name__))]
        after = snap(c)
        if mode == 'get':
            if not same(got, before['Y'][pos]):
                out.append(('alt-label:get', float(before['Y'][pos]), repr(got)[:80], 'an equal spelling %r of a label read another element' % (label,)))
        else:
            want = before['K'].copy()
            want[pos] = -7
            if not same(after['K'], want) or not same(after['Y'], before['Y']):
                out.append(('alt-label:set', want.tolist(), after['K'].tolist(), 'an equal spelling %r of a label wrote other cells' % (label,)))
        return out
    if isinstance(i, (list, tuple)) and i[0] == 'absent-extra':
        label = extra_absent(labels)[i[1]]
        i = 'absent'
    elif i == 'absent-tuple':
        label = (labels[0],)  # a 1-tuple wrapping an existing label is a different (absent) label
        i = 'absent'
    elif i == 'absent':
        label = spans.absent_label(kind)
    else:
        label = labels[i]
    before = snap(c)
    if mode == 'get':
        try:
            got = c['Y', label]
        except Exception as e:
            got = e
        if i == 'absent':
            if not isinstance(got, KeyError):
                out.append(('absent-label:get', 'KeyError', repr(got)[:80], 'absent label did not raise KeyError'))
        elif isinstance(got, Exception) or not same(got, before['Y'][i]):
            out.append(('label:get', float(before['Y'][i]), repr(got)[:80], 'label read returned the wrong element'))
    else:
        # every variable of the object can be written by label: the model's own status / iterations series included
        for var in c.index:
            c, labels = make(kind, n, obj)
            before = snap(c)
            value = {'U': 'Q', 'i': -7, 'f': -7.5, 'b': True}.get(c[var].dtype.kind, -7)
            try:
                c[var, label] = value
                exc = None
            except Exception as e:
                exc = e
            after = snap(c)
            if i == 'absent':
                if not isinstance(exc, KeyError) or any(not same(after[k], before[k]) for k in before):
                    out.append(('absent-label:set', 'KeyError, nothing changed', repr(exc)[:80], 'absent label on write'))
            else:
                want = before[var].copy()
                want[i] = value
                if exc is not None or any(not same(after[k], want if k == var else before[k]) for k in before):
                    out.append(('label:set' + ('' if var in ('Y', 'K') else ':tracking-variable'), want.tolist(), after[var].tolist() if exc is None else repr(exc)[:80],
                                'label write to %r changed the wrong cells' % var))
            if out:
                break
        # the same write after the series were filled from arrays (one variable assigned from another, two variables added from one array):
        # a label write still changes one cell of one variable, and nothing the caller holds
        if not out and i != 'absent':
            for prep in ('assigned-from-sibling', 'replaced-from-sibling', 'added-from-one-array', 'added-from-sibling', 'after-refused-add'):
                c, labels = make(kind, n, obj)
                held = np.array([0.25 * (k + 1) for k in range(n)])
                try:
                    if prep == 'assigned-from-sibling':
                        c.add_variable('N1', 0.0)
                        c.N1 = c.Y
                        others = ['Y']
                    elif prep == 'replaced-from-sibling':
                        c.add_variable('N1', 0.0)
                        c.replace_values(N1=c['Y'])
                        others = ['Y']
                    elif prep == 'after-refused-add':
                        # a misfitting add_variable is refused and leaves nothing behind: the corrected call works, labels address its cells
                        try:
                            c.add_variable('N1', [1.0] * (n + 1))
                        except Exception:
                            pass
                        c.add_variable('N1', 0.0)
                        others = ['Y']
                    elif prep == 'added-from-one-array':
                        c.add_variable('N1', held)
                        c.add_variable('N2', held)
                        others = ['N2']
                    else:
                        c.add_variable('N1', c['Y'])
                        others = ['Y']
                except Exception as e:
                    out.append(('label:set:prepared:%s:%s' % (prep, type(e).__name__), 'accepted', repr(e)[:100], 'filling a series from an array is refused'))
                    break
                before = snap(c)
                held_before = held.copy()
                try:
                    c['N1', label] = -7.5
                    exc = None
                except Exception as e:
                    exc = e
                after = snap(c)
                want = before['N1'].copy()
                want[i] = -7.5
                if exc is not None or any(not same(after[k], want if k == 'N1' else before[k]) for k in before) or not same(held, held_before):
                    out.append(('label:set:prepared:%s' % prep, want.tolist(), [after['N1'].tolist(), [after[o].tolist() for o in others], held.tolist()] if exc is None else repr(exc)[:80],
                                'a label write to a variable filled from an array also changed %s or the array the caller holds' % others))
                    break
        # ... and after the whole stack was replaced from an array the caller keeps: the label write reaches the object only
        if not out and i != 'absent':
            c, labels = make(kind, n, obj)
            try:
                kept = np.array(c.values, dtype=float) + 1.0
                c.values = kept
            except Exception:
                kept = None
            if kept is not None and kept.ndim == 2 and kept.size:
                kept_before = kept.copy()
                before = snap(c)
                try:
                    c['Y', label] = -7.5
                    exc = None
                except Exception as e:
                    exc = e
                after = snap(c)
                want = before['Y'].copy()
                want[i] = -7.5
                if exc is not None or any(not same(after[k], want if k == 'Y' else before[k]) for k in before) or not same(kept, kept_before):
                    out.append(('label:set:prepared:values-from-kept-array', want.tolist(), [after['Y'].tolist(), kept[0].tolist()] if exc is None else repr(exc)[:80],
                                'a label write after `values = array` changed other cells or the array the caller holds'))
    return out


def run_slice_case(case):
    kind, n, obj, si, ei, step, mode = case['span'], case['n'], case['obj'], case['si'], case['ei'], case['step'], case['mode']
    c, labels = make(kind, n, obj)
    absent = spans.absent_label(kind)
    a = None if si is None else (absent if si == 'absent' else labels[si])
    b = None if ei is None else (absent if ei == 'absent' else labels[ei])
    before = snap(c)
    out = []
    sl = slice(a, b, step)
    has_absent = si == 'absent' or ei == 'absent'
    pa = 0 if si is None else si
    pb = n - 1 if ei is None else ei
    if mode == 'get':
        try:
            got = c['Y', sl]
        except Exception as e:
            got = e
        if has_absent:
            if not isinstance(got, KeyError):
                out.append(('absent-label:slice-get', 'KeyError', repr(got)[:80], 'absent slice bound did not raise KeyError'))
        else:
            want = before['Y'][pa:pb + 1:step] if pa <= pb else before['Y'][0:0]
            if isinstance(got, Exception) or not same(got, want):
                out.append(('slice:get', want.tolist(), repr(got)[:100], 'label slice read the wrong positions'))
    else:
        for var in ['K'] + (['iterations'] if obj != 'container' else []):
            c, labels = make(kind, n, obj)
            before = snap(c)
            try:
                c[var, sl] = -9
                exc = None
            except Exception as e:
                exc = e
            after = snap(c)
            if has_absent:
                if not isinstance(exc, KeyError) or any(not same(after[k], before[k]) for k in before):
                    out.append(('absent-label:slice-set', 'KeyError, nothing changed', repr(exc)[:80], 'absent slice bound on write'))
            else:
                want = before[var].copy()
                if pa <= pb:
                    want[pa:pb + 1:step] = -9
                if exc is not None or any(not same(after[k], want if k == var else before[k]) for k in before):
                    out.append(('slice:set' + ('' if var == 'K' else ':tracking-variable'), want.tolist(), after[var].tolist() if exc is None else repr(exc)[:80], 'label slice wrote the wrong positions of %r' % var))
            if out:
                break
        # the same slice assigned from a list / tuple / array holding one value per addressed period (in order)
        if not out and not has_absent:
            addressed = list(range(pa, pb + 1, step or 1)) if pa <= pb else []
            for flavour in ('list', 'tuple', 'ndarray'):
                c, labels = make(kind, n, obj)
                before = snap(c)
                items = [-100 - q for q in range(len(addressed))]
                value = items if flavour == 'list' else tuple(items) if flavour == 'tuple' else np.array(items)
                try:
                    c['K', sl] = value
                    exc = None
                except Exception as e:
                    exc = e
                after = snap(c)
                want = before['K'].copy()
                for q, posn in enumerate(addressed):
                    want[posn] = items[q]
                if exc is not None or any(not same(after[k], want if k == 'K' else before[k]) for k in before):
                    out.append(('slice:set:one-value-per-period:%s' % flavour, want.tolist(), after['K'].tolist() if exc is None else repr(exc)[:80],
                                'a label slice assigned from one value per addressed period stored something else (or was refused)'))
                    break
    return out


WRITE_PATHS = ['attr_full', 'key_full', 'attr_pos', 'key_pos', 'label', 'label_slice', 'replace_values', 'values_setter']
READ_PATHS = ['attr_pos', 'key_pos', 'label', 'label_slice', 'open_slice', 'values_row']
SENTINEL = 0.1 + 0.2  # 0.30000000000000004: bit pattern must survive


def run_path_case(case):
    kind, n, obj, i, w = case['span'], case['n'], case['obj'], case['i'], case['write']
    c, labels = make(kind, n, obj)
    label = labels[i]
    if case.get('pre') == 'int-list':
        # history: the whole series was assigned from an all-integer list before (it must remain a float series)
        c.Y = list(range(2, n + 2))
    elif case.get('pre') == 'int-tuple-key':
        c['Y'] = tuple(range(2, n + 2))
    before = snap(c)
    full = before['Y'].copy()
    full[i] = SENTINEL
    if w == 'attr_full':
        c.Y = full.tolist()
    elif w == 'key_full':
        c['Y'] = full
    elif w == 'attr_pos':
        c.Y[i] = SENTINEL
    elif w == 'key_pos':
        c['Y'][i] = SENTINEL
    elif w == 'label':
        c['Y', label] = SENTINEL
    elif w == 'label_slice':
        if label is None:
            return []
        c['Y', label:label] = SENTINEL
    elif w == 'replace_values':
        c.replace_values(Y=full)
    elif w == 'values_setter':
        v = c.values.astype(float)
        row = (list(c.names) if hasattr(c, 'names') else list(c.index)).index('Y')
        v[row, i] = SENTINEL
        c.values = v
    out = []
    reads = {}
    reads['attr_pos'] = c.Y[i]
    reads['key_pos'] = c['Y'][i]
    reads['label'] = c['Y', label]
    if label is not None:
        r = c['Y', label:label]
        reads['label_slice'] = r[0] if len(r) == 1 else r
    reads['open_slice'] = c['Y', :][i] if len(c['Y', :]) == n else c['Y', :]
    row = (list(c.names) if hasattr(c, 'names') else list(c.index)).index('Y')
    reads['values_row'] = c.values[row][i]
    for rp, got in reads.items():
        if rp == 'values_row':
            ok = float(got) == SENTINEL
        else:
            ok = same(np.float64(got) if np.ndim(got) == 0 else got, np.float64(SENTINEL))
        if not ok:
            out.append(('path:%s->%s' % (w, rp), SENTINEL, repr(got)[:60], 'value written through one path is not read back through another'))
    if not same(c['Y'], full) or not same(c['K'], before['K']):
        out.append(('path:%s:other-cells' % w, full.tolist(), c['Y'].tolist(), 'a write changed cells other than the addressed one'))
    return out


ATTR_NAMES = ['size', 'copy', 'nbytes', 'eval', 'values', 'lags', 'reindex']


def run_name_case(case):
    """Key-based paths on a variable whose name coincides with an attribute or method of the object
    (attribute access is excluded for such names: the class attribute wins by construction)."""
    kind, n, obj, name, i = case['span'], case['n'], case['obj'], case['name'], case['i']
    c, labels = make(kind, n, obj)
    try:
        c.add_variable(name, [2.5 + k for k in range(n)], dtype=float)
    except Exception:
        return []
    label = labels[i]
    out = []
    c[name, label] = SENTINEL
    want = np.array([2.5 + k for k in range(n)])
    want[i] = SENTINEL
    reads = {'key': lambda: c[name], 'key_pos': lambda: c[name][i], 'label': lambda: c[name, label]}
    if label is not None:
        reads['label_slice'] = lambda: c[name, label:label]
    for rp, fn in reads.items():
        try:
            got = fn()
        except Exception as e:
            got = e
        exp = want if rp == 'key' else (want[i:i + 1] if rp == 'label_slice' else want[i])
        if isinstance(got, Exception) or not same(got, exp):
            out.append(('attribute-like-name:%s' % rp, np.asarray(exp).tolist(), repr(got)[:80], 'a variable named %r is not read back through %s' % (name, rp)))
    return out


def run_reindex_case(case):
    """Labels are resolved against the span the object has NOW: look a label up, reindex onto a shifted / reordered span of
    the same type, and every label of the new span addresses its own position (kept value or fill) on the result, while the
    original still resolves against the old span."""
    kind, n, obj = case['span'], case['n'], case['obj']
    c, labels = make(kind, n, obj)
    out = []
    for lab in labels:
        c['Y', lab]                      # warm whatever the object may remember about its span
    c['K', labels[0]:labels[-1]] = 3
    span2, labels2 = spans.make(kind, n)
    order = list(range(n))[::-1] if case['how'] == 'reversed' else (list(range(1, n)) + [0])
    try:
        if hasattr(span2, 'take'):
            new_span = span2.take(order)
        elif isinstance(span2, np.ndarray):
            new_span = span2[order]
        else:
            new_span = type(span2)([labels2[i] for i in order]) if not isinstance(span2, range) else [labels2[i] for i in order]
    except Exception:
        return out
    try:
        r = c.reindex(new_span)
    except Exception as e:
        return [('after-reindex:exception:%s' % type(e).__name__, 'a reindexed object', repr(e)[:160], 'reindex onto a permutation of the span raised')]
    new_labels = list(new_span)
    for j, lab in enumerate(new_labels):
        want = c['Y'][labels.index(lab)]
        try:
            got = r['Y', lab]
        except Exception as e:
            got = e
        if isinstance(got, Exception) or not same(got, want) or not same(r['Y'][j], want):
            out.append(('after-reindex:label', float(want), repr(got)[:80], 'on the reindexed object the label %r does not address its position %d' % (lab, j)))
            break
    if not out:
        for i, lab in enumerate(labels):
            if not same(c['Y', lab], c['Y'][i]):
                out.append(('after-reindex:original', float(c['Y'][i]), repr(c['Y', lab])[:80], 'the original resolves labels differently after it was reindexed'))
                break
    if not out:
        # label writes on the reindexed object: exactly that cell, on that object only
        keep_orig = c['Y'].copy()
        for j, lab in enumerate(new_labels):
            before = r['Y'].copy()
            try:
                r['Y', lab] = -5.5 - j
            except Exception as e:
                out.append(('after-reindex:write:%s' % type(e).__name__, 'written', repr(e)[:120], 'a label write on the reindexed object fails'))
                break
            want = before.copy()
            want[j] = -5.5 - j
            if not same(r['Y'], want) or not same(c['Y'], keep_orig):
                out.append(('after-reindex:write', want.tolist(), r['Y'].tolist(), 'a label write on the reindexed object changed other cells (or the original)'))
                break
    return out


def run_block(block, tier, seed):
    acc = Acc()
    kind, n, obj = block['span'], block['n'], block['obj']
    if n >= 2 and not any(x is None for x in spans.make(kind, n)[1]):
        for how in ('reversed', 'rotated'):
            case = dict(kind='reindex', span=kind, n=n, obj=obj, how=how)
            acc.evaluations += 1
            acc.nontrivial += 1
            for key, exp, obs, what in safe(run_reindex_case, case, acc):
                acc.violation(key + ':' + kind, case, exp, obs, what)
    if n == 3:
        for name in ATTR_NAMES:
            for i in range(n):
                case = dict(kind='name', span=kind, n=n, obj=obj, name=name, i=i)
                acc.evaluations += 1
                acc.nontrivial += 1
                for key, exp, obs, what in safe(run_name_case, case, acc):
                    acc.violation(key, case, exp, obs, what)
    _, labels = spans.make(kind, n)
    choices = list(range(n)) + ['absent'] + ([] if kind == 'list_mixed' else ['absent-tuple'])
    choices = choices + [['alt', i, j] for i in range(n) for j in range(len(alt_labels(labels[i])))] + [['absent-extra', j] for j in range(len(extra_absent(labels)))]
    for i in choices:
        for mode in ('get', 'set'):
            case = dict(kind='label', span=kind, n=n, obj=obj, i=i, mode=mode)
            acc.evaluations += 1
            acc.nontrivial += 1
            for key, exp, obs, what in safe(run_label_case, case, acc):
                acc.violation(key + ':' + kind, case, exp, obs, what)
    bounds = [None] + [i for i in range(n) if bound_ok(labels[i])] + ['absent']
    for si, ei in itertools.product(bounds, repeat=2):
        for step in (None, 1, 2, 3):
            for mode in ('get', 'set'):
                case = dict(kind='slice', span=kind, n=n, obj=obj, si=si, ei=ei, step=step, mode=mode)
                acc.evaluations += 1
                acc.nontrivial += 1
                for key, exp, obs, what in safe(run_slice_case, case, acc):
                    acc.violation(key + ':' + kind, case, exp, obs, what)
    for i in range(n):
        for w in WRITE_PATHS:
            for pre in (None, 'int-list', 'int-tuple-key'):
                case = dict(kind='path', span=kind, n=n, obj=obj, i=i, write=w, pre=pre)
                acc.evaluations += 1
                acc.nontrivial += 1
                for key, exp, obs, what in safe(run_path_case, case, acc):
                    acc.violation(key + (':after-int-sequence' if pre else ''), case, exp, obs, what)
    acc.outcome((kind, n))
    acc.sample(dict(kind='slice', span=kind, n=n, obj=obj, si=0, ei=n - 1, step=2, mode='get'), limit=1)
    return acc


def safe(fn, case, acc):
    try:
        with guard(10):
            return fn(case)
    except CaseTimeout:
        return [('timeout', 'termination', 'timeout', 'timeout')]
    except Exception as e:
        return [('exception:%s:%s' % (case['kind'], type(e).__name__), 'no exception', repr(e)[:200], 'access raised unexpectedly')]


def run_one(case):
    fn = {'label': run_label_case, 'slice': run_slice_case, 'path': run_path_case, 'name': run_name_case, 'reindex': run_reindex_case}[case['kind']]
    try:
        return fn(case)
    except Exception as e:
        return [('exception:%s:%s' % (case['kind'], type(e).__name__), 'no exception', repr(e)[:200], 'access raised unexpectedly')]


def finalize(acc, tier, seed):
    return {'span_types': list(spans.SPAN_TYPES), 'max_length': 4 if tier == 'quick' else 6}
