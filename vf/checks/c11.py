# -*- coding: utf-8 -*-
"""C11 - copies and sibling instances share no mutable state.

Deciding step: exhaustive enumeration of (object kind) x (pre-history) x (copy route) x (side mutated) x
(post-history of <= 2 (quick) / 3 (thorough) operations from a mutation alphabet) on real objects. After
every step the *other* side, a sibling instance and the class must be observationally unchanged; the same
post-history applied to both sides must give equal observations; and an object-graph walk must find no
mutable object reachable from both sides (a for-all-mutations argument).
"""
import copy
import itertools
import types

import numpy as np

import fsic
from fsic.core import BaseLinker, VectorContainer
from fsic.extensions import AliasMixin, TracerMixin

from .. import scripted
from ..core.observe import observe, diff_obs, class_state, canon
from ..core.runner import Acc, guard, CaseTimeout, robust

ID = 'C11'
LEVEL = 'model_checking'
TECHNIQUE = 'exhaustive exploration of mutation histories after each copy route on real objects; other-side/sibling/class invariance, differential post-histories, object-graph sharing walk'
RULE = ('5 object kinds x 5 pre-histories (+ every single operation) x 5 copy routes (copy(), copy.copy, copy.deepcopy, a second copy(), copy() followed by handing the copy the original\'s own arrays) x 2 sides x all post-histories of <= 2 (quick) / 3 (thorough) ops from a ~25-op mutation '
        'alphabet; states = distinct (kind, pre, route) configurations, transitions = operations applied, traces = scenarios checked; '
        'non-trivial = scenario in which the mutated side changed'
        ' Linker submodel identifiers that are mutable objects (3 copy routes).')
ASSUMPTIONS = [
    'the caller-supplied span object of a *new* instance (not a copy) is the caller\'s own and is not counted as shared state',
    'immutable objects (str, numbers, tuples, ranges, pandas indexes) may be shared',
]

SPAN = [10, 11, 12, 13]

_M = fsic.build_model(fsic.parse_model('Y = 0.5 * Y[-1] + X\nZ = Y + 1'))


class TA(AliasMixin, TracerMixin, _M):
    ALIASES = {'GDP': 'Y', 'OUT': 'GDP'}
    PREFERRED_NAMES = ['GDP']


class LkC(BaseLinker):
    ENDOGENOUS = ['L']
    EXOGENOUS = []
    NAMES = ['L']
    CHECK = ['L']


KINDS = ['container', 'model', 'scripted', 'linker', 'mixin']


def build(kind):
    if kind == 'container':
        c = VectorContainer(list(SPAN))
        c.add_variable('Y', [1.0, 2.0, 3.0, 4.0])
        c.add_variable('K', 2)
        return c
    if kind == 'model':
        return _M(list(SPAN), X=[1.0, 2.0, 3.0, 4.0])
    if kind == 'scripted':
        m = scripted.make_scripted(list(SPAN), {p: [('moved', 0), ('conv', 0)] for p in range(4)})
        m.add_variable('Y', 1.0)
        return m
    if kind == 'linker':
        return LkC({'a': _M(list(SPAN), X=1.0), 'b': _M(list(SPAN), X=2.0)}, name='world')   # (a name of its own: the default is '_')
    if kind == 'mixin':
        return TA(list(SPAN), X=[1.0, 2.0, 3.0, 4.0])
    raise ValueError(kind)


def klass(kind):
    return type(build(kind))


def _second_copy(o):
    """Copy, mutate and solve that first copy, then copy the original AGAIN: the second copy is the one under test."""
    first = o.copy()
    for n in list(first.index)[:1]:
        if first[n].dtype.kind == 'f':
            first[n][0] = -123.0
    first.add_variable('OnlyInFirstCopy', 1.0)
    _FIRST_COPIES.append(first)
    return o.copy()


def _copy_then_series_from_original(o):
    """Copy, then hand the copy the original's own series back (attribute, key and replace_values in turn): the values are
    the ones it already has, so the copy stays equal - and must stay independent (assignment copies values, not the array)."""
    c = o.copy()
    how = 0
    for n in list(o.index):
        arr = o[n] if not hasattr(o, 'aliases') else vars(o)['_' + n]
        if not isinstance(arr, np.ndarray) or arr.dtype.kind != 'f':
            continue
        if how % 3 == 0:
            setattr(c, n, arr)
        elif how % 3 == 1:
            c[n] = arr
        else:
            c.replace_values(**{n: arr})
        how += 1
    return c


_FIRST_COPIES = []
ROUTES = {'copy()': lambda o: o.copy(), 'copy.copy': copy.copy, 'copy.deepcopy': copy.deepcopy, 'second copy()': _second_copy,
          'copy() + series from original': _copy_then_series_from_original}

# --------------------------------------------------------------------------- mutation alphabet


def _solve(o):
    kw = dict(max_iter=3, failures='ignore', errors='ignore')
    if 'trace' in o.index:
        kw['trace'] = True
    if isinstance(o, scripted.ScriptedBase):
        kw['tol'] = scripted.TOL
    o.solve(**kw)


class Box:
    """A user object: hashable (by identity) and mutable."""

    def __init__(self):
        self.items = [1, 2]


def _newattr(o):
    o.foo = {'k': [1, 2], 'arr': np.zeros(2)}
    o.box = Box()
    base = VectorContainer(list(SPAN))
    base.add_variable('V', 1.0)
    o.baseline = base
    o.pair = ([1, 2], 'x')
    try:
        o.add_variable('Rec', [{'k': i} for i in range(len(SPAN))], dtype=object)   # a series of mutable records
    except Exception:
        pass
    # names that are fragments of the object's own bookkeeping keys ('submodels', 'span', 'index', 'names', '_attributes')
    for frag in ('sub', 'mode', 'models', 'pan', 'dex', 'name', 'attr'):
        if frag not in vars(o) and not hasattr(type(o), frag):
            setattr(o, frag, [frag])


def op_table(kind):
    v = 'L' if kind == 'linker' else 'Y'
    ops = {
        'elem': lambda o: o[v].__setitem__(1, 9.5),
        'setattr': lambda o: setattr(o, v, 7.0),
        'setlabel': lambda o: o.__setitem__((v, 12), -3.0),
        'add_variable': lambda o: o.add_variable('Znew', [4, 5, 6, 7]),
        'newattr': _newattr,   # ad hoc attributes holding NESTED mutable objects, hashable ones (objects, containers, a tuple round a list) included
        'box.append': lambda o: o.box.items.append(3) if 'box' in vars(o) else None,
        'baseline.elem': lambda o: o.baseline['V'].__setitem__(0, 5.5) if 'baseline' in vars(o) else None,
        'baseline.add_variable': lambda o: o.baseline.add_variable('W2', 1.0) if 'baseline' in vars(o) else None,
        'pair[0].append': lambda o: o.pair[0].append(9) if 'pair' in vars(o) else None,
        'Rec[1][k]=': lambda o: vars(o)['_Rec'][1].__setitem__('k', 'changed') if '_Rec' in vars(o) else None,
        'foo.append': lambda o: o.foo['k'].append(3) if 'foo' in vars(o) else o.add_attribute('foo', {'k': [9], 'arr': np.ones(2)}),
        'foo.arr[0]=': lambda o: o.foo['arr'].__setitem__(0, 7.0) if 'foo' in vars(o) else None,
        'strict': lambda o: setattr(o, 'strict', not o.strict),
        'span[0]=': lambda o: o.span.__setitem__(0, 77),
    }
    if kind != 'container':
        ops.update({
            'solve': _solve,
            'names.append': lambda o: o.names.append('Qn'),
            'check.append': lambda o: o.check.append('Qc'),
            'check.pop': lambda o: o.check.pop() if o.check else None,
            'endogenous.append': lambda o: o.endogenous.append('Qe'),
            'lags=': lambda o: setattr(o, 'lags', o.lags + 2),
            'leads=': lambda o: setattr(o, 'leads', o.leads + 1),
            'status[1]=': lambda o: o.status.__setitem__(1, 'E'),
            'iterations[2]=': lambda o: o.iterations.__setitem__(2, 42),
        })
    if kind == 'linker':
        ops.update({
            'sub.elem': lambda o: o.submodels['a'].Y.__setitem__(2, 5.5),
            'sub.add_variable': lambda o: o.submodels['b'].add_variable('W', 1.0),
            'sub.check.append': lambda o: o.submodels['a'].check.append('Qs'),
            'submodels[c]=': lambda o: o.submodels.__setitem__('c', _M(list(SPAN))),
            'sub.status': lambda o: o.submodels['b'].status.__setitem__(0, 'S'),
        })
    if kind == 'mixin':
        ops.update({
            'aliases[NEW]=': lambda o: o.aliases.__setitem__('NEW', 'Z'),
            'alias.elem': lambda o: o.GDP.__setitem__(3, -8.0),
            'preferred.append': lambda o: o.preferred_names.append('Z'),
            'trace.append': lambda o: o.trace[1].append('manual', np.array([1.0, 2.0, 3.0])),
            'trace[2]=': lambda o: o.trace.__setitem__(2, None),
        })
    return ops


PRE = {
    'none': [],
    'solve': ['solve'],
    'add_variable': ['add_variable'],
    'newattr': ['newattr'],
    'solve+elem': ['solve', 'elem'],
}


def apply(o, kind, name):
    try:
        op_table(kind)[name](o)
        return None
    except Exception as e:
        return type(e).__name__


# --------------------------------------------------------------------------- object graph walk

IMMUTABLE = (str, int, float, bool, type(None), bytes, range, frozenset, type, types.FunctionType, types.ModuleType, np.generic,
             types.BuiltinFunctionType, types.MethodType, property, staticmethod, classmethod)


def walk(obj, seen=None, path='obj'):
    if seen is None:
        seen = {}
    if isinstance(obj, tuple):
        for i, x in enumerate(obj):
            walk(x, seen, '%s[%d]' % (path, i))
        return seen
    if isinstance(obj, IMMUTABLE):
        return seen
    mod = type(obj).__module__ or ''
    if mod.startswith('pandas'):
        return seen
    if id(obj) in seen:
        return seen
    seen[id(obj)] = (path, type(obj).__name__)
    if isinstance(obj, dict):
        for k, v in obj.items():
            walk(v, seen, '%s[%r]' % (path, k))
    elif isinstance(obj, (list, set)):
        for i, x in enumerate(obj):
            walk(x, seen, '%s[%d]' % (path, i))
    elif isinstance(obj, np.ndarray):
        if obj.base is not None:
            walk(obj.base, seen, path + '.base')
        if obj.dtype == object:
            for i, x in enumerate(obj.flat):
                walk(x, seen, '%s[%d]' % (path, i))
    elif hasattr(obj, '__dict__'):
        walk(vars(obj), seen, path + '.__dict__')
    return seen


def shared(a, b):
    sa, sb = walk(a), walk(b)
    return sorted((sa[i][0], sb[i][0], sa[i][1]) for i in sa if i in sb)


def class_mutables(cls):
    out = {}
    for base in cls.__mro__:
        for k, v in vars(base).items():
            if isinstance(v, (list, dict, set)) and k not in out:
                out[k] = v
    return out


# --------------------------------------------------------------------------- scenario


@robust(1, True)
def run_scenario(case):
    kind, pre, route, side, post = case['kind'], case['pre'], case['route'], case['side'], case['post']
    out = []
    cls = klass(kind)
    class_before = class_state(cls)
    sibling = build(kind)
    sibling_before = observe(sibling)
    orig = build(kind)
    for name in pre_ops(pre):
        if name in op_table(kind):
            apply(orig, kind, name)
    del _FIRST_COPIES[:]
    cp = ROUTES[route](orig)
    if _FIRST_COPIES:
        sh2 = shared(_FIRST_COPIES[0], cp)
        if sh2:
            out.append(('copy:shared-with-earlier-copy', 'no shared mutable object', sh2[:3], 'two copies of one object share a mutable object'))
    if type(cp) is not type(orig):
        out.append(('copy:class', type(orig).__name__, type(cp).__name__, 'copy is of a different class'))
        return out, False
    o0, c0 = observe(orig), observe(cp)
    if o0 != c0:
        out.append(('copy:not-equal:%s' % route, 'equal observations', diff_obs(o0, c0), 'copy differs from the original right after copying'))
        return out, False
    sh = shared(orig, cp)
    if sh:
        out.append(('copy:shared-object:%s' % sh[0][2], 'no shared mutable object', sh[:4], 'original and copy share a mutable object'))
    target, other = (orig, cp) if side == 'orig' else (cp, orig)
    other_obs = observe(other)
    changed = False
    for step, name in enumerate(post):
        before = observe(target)
        apply(target, kind, name)
        changed = changed or observe(target) != before
        now = observe(other)
        if now != other_obs:
            out.append(('leak:%s->%s:%s' % (side, 'copy' if side == 'orig' else 'orig', name), 'other side unchanged', diff_obs(other_obs, now),
                        'a mutation of one side is visible on the other'))
            break
        if observe(sibling) != sibling_before:
            out.append(('leak:sibling:%s' % name, 'sibling unchanged', diff_obs(sibling_before, observe(sibling)), 'a mutation is visible on a sibling instance'))
            break
        if class_state(cls) != class_before:
            out.append(('leak:class:%s' % name, 'class attributes unchanged', diff_obs(class_before, class_state(cls)), 'an instance mutation changed the class'))
            break
    # the same caller-owned 2-D array assigned to both sides must not tie them together (values are copied in)
    if not out and not post[1:] and kind != 'container':
        try:
            ext = np.array(orig.values, dtype=float)
            if ext.ndim == 2 and ext.size and ext.shape == np.shape(cp.values):
                orig.values = ext
                cp.values = ext
                snap_other = observe(cp)
                first = (list(orig.names) if hasattr(orig, 'names') else list(orig.index))[0]
                orig[first][0] = -777.0
                if observe(cp) != snap_other:
                    out.append(('leak:shared-external-array', 'copy unchanged', diff_obs(snap_other, observe(cp)), 'after the same array was assigned to .values of both sides a write to one side shows on the other'))
                elif ext[0][0] == -777.0:
                    out.append(('leak:caller-array-adopted', 'caller array untouched', 'changed', 'the container adopted the caller\'s array instead of copying its values'))
        except Exception:
            pass  # the probe does not apply in this state (strict object, non-numeric variables, ...)
    # restore the class if an instance history damaged it, so later scenarios start clean
    if class_state(cls) != class_before:
        _restore_class(cls)
    if not out:
        # differential: the same post-history on both sides of a fresh pair gives equal observations
        a = build(kind)
        for name in pre_ops(pre):
            if name in op_table(kind):
                apply(a, kind, name)
        b = ROUTES[route](a)
        for name in post:
            ra, rb = apply(a, kind, name), apply(b, kind, name)
            if ra != rb:
                out.append(('differential:exception:%s' % name, ra, rb, 'the same operation behaves differently on the copy'))
                break
        if not out and observe(a) != observe(b):
            d = diff_obs(observe(a), observe(b))
            where = d[0].split(':')[0].strip('/').split('/') if d else ['?']
            where = [w for w in where if not w.isdigit() and w not in ('container', 'list', 'tuple', 'dict', 'ndarray')]
            out.append(('differential:state:%s' % '/'.join(where[:3]), 'equal', d, 'original and copy diverge under the same history'))
        if class_state(cls) != class_before:
            _restore_class(cls)
    return out, changed


_CLASS_ORIG = {}


def _snapshot_class(cls):
    if cls not in _CLASS_ORIG:
        _CLASS_ORIG[cls] = {k: (list(v) if isinstance(v, list) else dict(v) if isinstance(v, dict) else set(v)) for k, v in class_mutables(cls).items()}


def _restore_class(cls):
    snap = _CLASS_ORIG.get(cls, {})
    for base in cls.__mro__:
        for k, v in list(vars(base).items()):
            if isinstance(v, list) and k in snap:
                v[:] = list(snap[k])
            elif isinstance(v, dict) and k in snap:
                v.clear()
                v.update(dict(snap[k]))


@robust()
def run_static_case(case):
    """Sharing walk between an instance and its class, and between two sibling instances (no mutation needed)."""
    kind = case['kind']
    out = []
    a, b = build(kind), build(kind)
    sh = shared(a, b)
    if sh:
        out.append(('siblings:shared-object', 'no shared mutable object', sh[:4], 'two instances of one class share a mutable object'))
    cm = class_mutables(type(a))
    sh = shared(a, cm)
    if sh:
        out.append(('class:shared-object', 'no shared mutable object', sh[:4], 'an instance shares a mutable object with its class'))
    if kind == 'linker':
        for k, sub in a.submodels.items():
            sh = shared(sub, class_mutables(type(sub)))
            if sh:
                out.append(('class:shared-object:submodel', 'none', sh[:3], 'a submodel shares a mutable object with its class'))
                break
    out += input_aliasing(kind)
    # what one object evaluates is its own: a name only the first object has is undefined on the second (nothing is left
    # behind in a table the objects share)
    try:
        p, q = build(kind), build(kind)
        p.add_variable('OnlyOnP', 3.5)
        p.eval('OnlyOnP + 1')
        try:
            got = q.eval('OnlyOnP + 1')
            out.append(('leak:eval-namespace', 'AttributeError on the sibling', repr(got)[:80], 'after one object evaluated an expression, its variable is visible to eval() on another object'))
        except AttributeError:
            pass
        cp = p.copy()
        cp.add_variable('OnlyOnCopy', 1.0)
        cp.eval('OnlyOnCopy * 2')
        try:
            got = p.eval('OnlyOnCopy * 2')
            out.append(('leak:eval-namespace:copy', 'AttributeError on the original', repr(got)[:80], 'a variable added to (and evaluated on) the copy is visible to eval() on the original'))
        except AttributeError:
            pass
    except Exception as e:
        out.append(('eval-probe:%s' % type(e).__name__, 'runs', repr(e)[:160], 'eval probe'))
    if kind == 'linker':
        # submodel identifiers may be any hashable object, also one with state of its own: a copy gets identifiers of its own
        class Region:
            def __init__(self, name):
                self.name = name
                self.notes = []

            def __hash__(self):
                return hash(self.name)

            def __eq__(self, other):
                return isinstance(other, Region) and other.name == self.name

            def __repr__(self):
                return 'Region(%r)' % self.name
        for route in ('copy()', 'copy.copy', 'copy.deepcopy'):
            lk = LkC({Region('north'): _M(list(SPAN), X=1.0), ('t', Region('south')): _M(list(SPAN), X=2.0)})
            try:
                cp = ROUTES[route](lk)
            except Exception as e:
                out.append(('copy:identifier-objects:%s' % type(e).__name__, 'a copy', repr(e)[:120], 'a linker whose submodel identifiers are objects cannot be copied'))
                break
            same = [repr(k) for k in cp.submodels for j in lk.submodels if (k is j and not isinstance(k, tuple)) or (isinstance(k, tuple) and isinstance(j, tuple) and k[1] is j[1])]
            if same:
                out.append(('copy:shared-identifier-object:%s' % route, 'identifiers of its own', same, 'a copied linker shares the (mutable) identifier objects of its submodels with the original'))
                break
            list(cp.submodels)[0].notes.append('edited on the copy')
            if any(getattr(k, 'notes', None) for k in lk.submodels):
                out.append(('copy:identifier-edit-leaks:%s' % route, [], 'edited on the copy', 'editing a submodel identifier of the copy shows on the original'))
                break
    if kind == 'model':
        # a hand-written class that declares ENDOGENOUS but no CHECK (and one that declares neither): instances own their lists
        class Hand(fsic.BaseModel):
            ENDOGENOUS = ['Y']
            EXOGENOUS = ['X']
            NAMES = ENDOGENOUS + EXOGENOUS

            def _evaluate(self, t, **kw):
                self._Y[t] = self._X[t]

        for _ in range(1):
            a1, b1 = Hand(list(SPAN)), Hand(list(SPAN))
            sh = shared(a1, b1) + shared(a1, class_mutables(Hand))
            if sh:
                out.append(('class:shared-object:hand-written', 'no shared mutable object', sh[:4], 'an instance of a hand-written class shares a list with the class or a sibling'))
            before_cls = class_state(Hand)
            a1.check.append('Y')
            a1.endogenous.append('Q')
            if class_state(Hand) != before_cls or list(b1.check) != list(Hand.CHECK) or 'Q' in b1.endogenous or 'Q' in Hand(list(SPAN)).endogenous:
                out.append(('leak:class:hand-written', 'class and siblings unchanged', [list(Hand.CHECK), list(b1.check), list(b1.endogenous)], 'editing one instance\'s check / endogenous list changed the class or another instance'))
    if kind == 'linker':
        # linkers created with every argument left at its default: the defaults themselves must not be shared
        try:
            p, q = BaseLinker(), BaseLinker()
            sh = shared(p, q)
            if sh:
                out.append(('siblings:shared-object:default-arguments', 'no shared mutable object', sh[:4], 'two linkers created with default arguments share a mutable object'))
            before = observe(q)
            p.submodels['late'] = _M(list(SPAN))
            if observe(q) != before:
                out.append(('leak:sibling:default-arguments', 'sibling unchanged', diff_obs(before, observe(q))[:2], 'adding a submodel to one default-constructed linker shows on another'))
            r = BaseLinker()
            if list(r.submodels):
                out.append(('leak:later-instance:default-arguments', [], list(r.submodels), 'a linker created later starts with submodels added to an earlier one'))
        except Exception as e:
            out.append(('default-arguments:%s' % type(e).__name__, 'constructs', repr(e)[:160], 'BaseLinker() with default arguments'))
    return out


INPUT_PATHS = ['ctor', 'add_variable', 'setattr', 'setitem', 'setslice', 'replace_values', 'values', 'from_dataframe']


def input_aliasing(kind):
    """One caller-owned array (dtype and length already right, so nothing forces a conversion) is handed to two sibling
    instances through every input path: the instances hold copies - a write to one shows neither on the other nor in the
    caller's array, and a later write to the caller's array shows in neither."""
    out = []
    probe = build(kind)
    v = next(x for x in probe.index if (probe[x] if not hasattr(probe, 'aliases') else vars(probe)['_' + x]).dtype.kind == 'f')
    n = len(SPAN)
    for path in INPUT_PATHS:
        for flavour in ('float64', 'view', 'fortran-2d-row', 'array.array', 'memoryview'):
            base = np.arange(1.0, 2 * n + 1.0)
            import array as _array
            raw = _array.array('d', [float(k + 1) for k in range(n)])   # a sequence that exposes its memory (buffer protocol)
            ext = {'float64': base[:n].copy(), 'view': base[::2], 'fortran-2d-row': np.asfortranarray(np.arange(1.0, 2 * n + 1.0).reshape(2, n))[1],
                   'array.array': raw, 'memoryview': memoryview(raw)}[flavour]
            if flavour in ('array.array', 'memoryview') and path in ('values', 'from_dataframe', 'ctor'):
                continue
            keep = np.array(ext, dtype=float).copy()
            pair = []
            try:
                for _ in range(2):
                    if path == 'ctor':
                        if kind in ('container', 'linker'):
                            raise LookupError
                        o = klass(kind)(list(SPAN), **{v: ext})
                    elif path == 'from_dataframe':
                        if kind in ('container', 'linker') or not hasattr(klass(kind), 'from_dataframe'):
                            raise LookupError
                        import pandas as pd
                        o = klass(kind).from_dataframe(pd.DataFrame({v: ext}, index=list(SPAN), copy=False))
                    else:
                        o = build(kind)
                        if path == 'add_variable':
                            o.add_variable('Wext', ext)
                        elif path == 'setattr':
                            setattr(o, v, ext)
                        elif path == 'setitem':
                            o[v] = ext
                        elif path == 'setslice':
                            o[v, SPAN[0]:SPAN[-1]] = ext
                        elif path == 'replace_values':
                            o.replace_values(**{v: ext})
                        elif path == 'values':
                            full = np.array(o.values, dtype=float)
                            if full.ndim != 2:
                                raise LookupError
                            o.values = full
                            ext, keep = full, full.copy()
                    pair.append(o)
            except LookupError:
                continue
            except Exception as e:
                out.append(('input:%s:%s' % (path, type(e).__name__), 'accepted', repr(e)[:120], 'a right-sized float array is not accepted through %s' % path))
                break
            a, b = pair
            name = 'Wext' if path == 'add_variable' else v
            before_b = observe(b)
            arr = a[name] if not hasattr(a, 'aliases') else vars(a)['_' + name]
            arr[1] = -4321.0
            if observe(b) != before_b:
                out.append(('input:shared-between-instances:%s' % path, 'sibling unchanged', diff_obs(before_b, observe(b))[:2], 'two instances fed the same array through %s share it (%s)' % (path, flavour)))
                break
            if canon(np.asarray(ext)) != canon(np.asarray(keep)):
                out.append(('input:caller-array-written:%s' % path, 'caller array untouched', np.asarray(ext).tolist(), 'a write to the instance went through to the caller\'s array (%s, %s)' % (path, flavour)))
                break
            before_a = observe(a)
            if flavour in ('array.array', 'memoryview'):
                raw[2] = 9876.5
            else:
                ext.flat[2] = 9876.5
            if observe(a) != before_a:
                out.append(('input:caller-write-seen:%s' % path, 'instance unchanged', diff_obs(before_a, observe(a))[:2], 'a later write to the caller\'s array changed the instance (%s, %s)' % (path, flavour)))
                break
    return out


def blocks(tier, seed):
    out = []
    for kind in KINDS:
        for pre in PRE:
            for route in ROUTES:
                if route == 'copy() + series from original' and pre not in ('none', 'solve'):
                    continue
                out.append({'kind': kind, 'pre': pre, 'route': route})
        # every single operation of the alphabet as a pre-history (post-histories of depth 1)
        for name in op_table(kind):
            if [name] not in PRE.values():
                for route in ('copy()', 'copy.deepcopy'):
                    out.append({'kind': kind, 'pre': 'op:' + name, 'route': route, 'shallow': True})
    return out


def pre_ops(pre):
    return [pre[3:]] if pre.startswith('op:') else PRE[pre]


def _usable_class(kind, acc, case):
    """The class of the objects under test; if operations on earlier *instances* have left the class unable to make a new instance
    (a class-level list was edited through an instance), that is reported and the class lists are put back."""
    try:
        return klass(kind)
    except Exception as e:
        for c in list(_CLASS_ORIG):
            _restore_class(c)
        if acc is not None:
            acc.violation('class-state:new-instance-fails-after-instance-operations:' + kind_group(kind), case, 'a new instance can be built',
                          repr(e)[:160], 'operations on instances left the class unable to make a new instance')
        return klass(kind)


def run_block(block, tier, seed):
    acc = Acc()
    kind = block['kind']
    _snapshot_class(_usable_class(kind, acc, dict(block)))
    if kind in ('linker', 'mixin', 'model'):
        _snapshot_class(_M)
    names = list(op_table(kind))
    depth = 2 if tier == 'quick' else 3
    if block.get('shallow'):
        depth = 1 if tier == 'quick' else 2
    acc.states += 1
    if block['pre'] == 'none' and block['route'] == 'copy()':
        case = {'kind': kind, 'static': True}
        acc.evaluations += 1
        acc.nontrivial += 1
        for key, exp, obs, what in run_static_case(case):
            acc.violation(key + ':' + kind_group(kind), case, exp, obs, what)
    for d in range(1, depth + 1):
        for post in itertools.product(names, repeat=d):
            if d == 3 and len(set(post)) < 2:
                continue
            for side in ('orig', 'copy'):
                case = dict(kind=kind, pre=block['pre'], route=block['route'], side=side, post=list(post))
                acc.evaluations += 1
                acc.transitions += len(post)
                try:
                    with guard(10):
                        v, changed = run_scenario(case)
                except CaseTimeout:
                    acc.violation('timeout', case, 'termination', 'timeout')
                    continue
                acc.traces += 1
                acc.nontrivial += bool(changed)
                for key, exp, obs, what in v:
                    acc.violation(key + ':' + kind_group(kind), case, exp, obs, what)
    acc.sample(dict(kind=kind, pre=block['pre'], route=block['route'], side='copy', post=names[:2]), limit=2)
    acc.outcome((kind, block['route']))
    return acc


def kind_group(kind):
    return 'container' if kind == 'container' else ('linker' if kind == 'linker' else 'model')


def run_one(case):
    kind = case['kind']
    _snapshot_class(_usable_class(kind, None, case))
    _snapshot_class(_M)
    if case.get('static'):
        return run_static_case(case)
    return run_scenario(case)[0]


def finalize(acc, tier, seed):
    return {'kinds': KINDS, 'routes': list(ROUTES), 'pre_histories': list(PRE), 'ops': {k: list(op_table(k)) for k in KINDS}}
