# -*- coding: utf-8 -*-
"""C08 - the linker solves its submodels jointly and consistently.

Deciding step: exhaustive enumeration of linkers over 0..2 (quick) / 0..3 (thorough) scripted submodels x every
selection (None, every ordered subset, an unknown id) x min_iter <= max_iter <= 3 (incl. max_iter = 0) x failures
x two tolerance regimes x every joint sequence of per-iteration outcomes {converged, moved} for the linker and each
selected submodel, plus every single-position deviation to the boundary concretisations (exactly tol, negative
move, 0.75*tol). Oracle: reference loop written from the statement + the complete hook/evaluation call order.
Plus: bare-model law on parser-built systems, offset seeding, construction rules (spans, LAGS/LEADS maxima).
"""
import itertools

import numpy as np

import fsic
from fsic.extensions import AliasMixin, TracerMixin
from fsic.core import BaseLinker, BaseModel

from .. import refsolve
from ..core.observe import observe, diff_obs, canon
from ..core.runner import Acc, guard, CaseTimeout, robust
from . import c02

ID = 'C08'
LEVEL = 'model_checking'
TECHNIQUE = 'exhaustive exploration of joint outcome sequences of linker + submodels against a reference linker loop and call-order log; differential bare-model law'
RULE = ('linkers over 0..2/3 scripted submodels x selections (None, all ordered subsets, unknown id) x min_iter<=max_iter<=3 x failures x '
        'tol in {0.5, 4} (submodels and linker carry an unchecked endogenous variable that never settles) x all joint outcome sequences over {c,m} with single deviations to {exactly tol, negative, 0.75 tol}; '
        'states = distinct (selection, options) configurations, transitions = linker solve_t calls, traces = runs compared with the reference loop; '
        'plus construction over 0..3 submodels with lag/lead lengths and spans that differ in start or in length. non-trivial = at least one iteration executed or a rejection checked'
        " Offsets with a linker pre-solution hook that writes endogenous values; spans equal in length and end points only; every joint script (max_iter >= 2) again with the linker's movement made in evaluate_t_before and through solve_period."
        ' Submodels sharing one span object; models without endogenous variables (empty program, data holder) alone and next to a sibling x min/max_iter.')
ASSUMPTIONS = [
    'scripted steps are exact binary fractions; reference loop written from the statement',
    'linker.solve_t with min_iter > max_iter is not demanded to raise (statement is silent for the linker)',
    'unknown submodel id: KeyError demanded, state after the rejection not demanded',
]

LOG = []
IDS = ['a', 'b', 'c']


def step(o, tol):
    return {'c': 0.25, 'm': 8.0, 'e': tol, 'n': -8.0, 'q': 0.75 * tol, 'x': float('nan'), 'i': float('inf')}[o]


class Sub(BaseModel):
    # C is endogenous but NOT a check variable, and never settles: convergence is judged on CHECK only
    ENDOGENOUS = ['A', 'B', 'C']
    EXOGENOUS = ['X']
    PARAMETERS = []
    ERRORS = []
    NAMES = ['A', 'B', 'C', 'X']
    CHECK = ['A', 'B']

    def _evaluate(self, t, **kw):
        d = self.__dict__
        LOG.append(('eval', d['tag'], kw.get('iteration')))
        self._C[t] += 100.0
        o = d['script'][d['n']] if d['n'] < len(d['script']) else 'c'
        d['n'] += 1
        if o in ('e', 'n', 'x', 'i'):
            self._B[t] += step(o, d['tol'])
        elif o == 'q':
            self._A[t] += step(o, d['tol'])
            self._B[t] -= step(o, d['tol'])
        else:
            self._A[t] += step(o, d['tol'])


class Lk(BaseLinker):
    # M: the linker's own unchecked endogenous variable, never settles either
    ENDOGENOUS = ['L', 'M']
    EXOGENOUS = []
    PARAMETERS = []
    ERRORS = []
    NAMES = ['L', 'M']
    CHECK = ['L']

    def evaluate_t_before(self, t, **kw):
        LOG.append(('pre', kw.get('iteration')))
        d = self.__dict__
        if d.get('pre_moves'):
            # the linker's own check variable is moved by the code that runs BEFORE the submodels (it counts as this iteration's movement)
            o = d['script'][d['n']] if d['n'] < len(d['script']) else 'c'
            d['n'] += 1
            self._L[t] += step(o, d['tol'])

    def evaluate_t_after(self, t, **kw):
        d = self.__dict__
        LOG.append(('post', kw.get('iteration')))
        if not d.get('pre_moves'):
            o = d['script'][d['n']] if d['n'] < len(d['script']) else 'c'
            d['n'] += 1
            self._L[t] += step(o, d['tol'])
        self._M[t] -= 100.0
        # the linker's own code may write to submodels it was not asked to solve: their check variables are NOT part of the convergence test
        sel = kw.get('submodels')
        for k, sub in self.submodels.items():
            if sel is not None and k not in sel:
                sub._A[t] += 8.0

    def solve_t_before(self, t, **kw):
        LOG.append(('solve_pre',))

    def solve_t_after(self, t, **kw):
        LOG.append(('solve_post',))


def make(nsub, scripts, tol, sel_actors):
    subs = {}
    for i in IDS[:nsub]:
        s = Sub(range(4))
        s.__dict__.update(tag=i, n=0, script=[], tol=tol)
        s.A = [1.0, 2.0, 3.0, 4.0]
        subs[i] = s
    lk = Lk(subs)
    lk.__dict__.update(n=0, script=list(scripts[0]), tol=tol)
    for a, sc in zip(sel_actors, scripts[1:]):
        subs[a].__dict__['script'] = list(sc)
    for i in subs:
        if i not in sel_actors:
            subs[i].B = float('nan')  # an unselected submodel may hold anything, a placeholder NaN in a check variable included
    return lk, subs


@robust()
def run_scripted_case(case):
    nsub, sel, min_iter, max_iter = case['nsub'], case['sel'], case['min_iter'], case['max_iter']
    failures, tol, scripts = case['failures'], case['tol'], case['scripts']
    unknown = sel is not None and any(x not in IDS[:nsub] for x in sel)
    seld = IDS[:nsub] if sel is None else [x for x in sel if x in IDS[:nsub]]
    lk, subs = make(nsub, scripts, tol, seld)
    if case.get('pre_moves'):
        lk.__dict__['pre_moves'] = True
    del LOG[:]
    t = case.get('t', 1)
    pos = t % 4
    if case.get('entry') == 'solve_period':
        res, cause, _ = refsolve.call_outcome(lk.solve_period, list(lk.span)[pos], submodels=sel, min_iter=min_iter, max_iter=max_iter, tol=tol, failures=failures)
    else:
        res, cause, _ = refsolve.call_outcome(lk.solve_t, t, submodels=sel, min_iter=min_iter, max_iter=max_iter, tol=tol, failures=failures)
    out = []
    if unknown:
        if res != 'KeyError':
            out.append(('unknown-id', 'KeyError', res, 'unknown submodel id must raise KeyError'))
        return out
    k_conv = None
    for k in range(1, max_iter + 1):
        if k < min_iter:
            continue
        poisoned = any(o in ('x', 'i') for sc in scripts[:1 + len(seld)] for o in sc[:k])  # a non-finite check value never "moved by less than tol"
        if not poisoned and all((sc[k - 1] if k - 1 < len(sc) else 'c') in ('c', 'q') for sc in scripts[:1 + len(seld)]):
            k_conv = k
            break
    if k_conv:
        est, eit, eres = '.', k_conv, 'True'
    else:
        est, eit, eres = 'F', max_iter, ('NonConvergenceError' if failures == 'raise' else 'False')
    exp_log = [('solve_pre',)]
    for k in range(1, eit + 1):
        exp_log += [('pre', k)] + [('eval', a, k) for a in seld] + [('post', k)]
    if k_conv:
        exp_log.append(('solve_post',))
    obs = {
        'result': res,
        'linker': (str(lk.status[pos]), int(lk.iterations[pos])),
        'selected': [(a, str(subs[a].status[pos]), int(subs[a].iterations[pos])) for a in seld],
        'unselected': [(a, str(subs[a].status[pos]), int(subs[a].iterations[pos])) for a in IDS[:nsub] if a not in seld],
        'other_periods': [(a, p) for a in IDS[:nsub] for p in range(4) if p != pos and (str(subs[a].status[p]) != '-' or int(subs[a].iterations[p]) != -1)],
    }
    exp = {
        'result': eres,
        'linker': (est, eit),
        'selected': [(a, est, eit) for a in seld],
        'unselected': [(a, '-', -1) for a in IDS[:nsub] if a not in seld],
        'other_periods': [],
    }
    if obs != exp:
        fields = '+'.join(sorted(k for k in exp if exp[k] != obs[k]))
        tag = 'max_iter=0' if max_iter == 0 else ('non-finite' if any(o in 'xi' for sc in scripts for o in sc) else 'tol-boundary' if any(o in 'eq' for sc in scripts for o in sc) else 'general')
        out.append(('scripted:%s:%s:%s' % (fields, tag, res), exp, obs, 'linker solve_t disagrees with the reference loop'))
    strip = lambda log: [e[:2] if e[0] == 'eval' else e[:1] for e in log]  # the iteration keyword is not part of the property
    if strip(LOG) != strip(exp_log) and not out:
        out.append(('scripted:call-order', strip(exp_log)[:14], strip(LOG)[:14], 'hook/evaluation call order differs'))
    return out


def selections(nsub):
    yield None
    ids = IDS[:nsub]
    for r in range(0, nsub + 1):
        for p in itertools.permutations(ids, r):
            yield list(p)
    yield ['zz']
    if nsub:
        yield [ids[0], 'zz']


def joint_scripts(n_actors, length, tier):
    """All joint sequences over {c,m}; then every single (actor, position) deviating to e / n / q."""
    base = list(itertools.product(itertools.product('cm', repeat=length), repeat=n_actors))
    for sc in base:
        yield [list(x) for x in sc]
    if length == 0:
        return
    for sc in base:
        for a in range(n_actors):
            for p in range(length):
                for dev in 'enqxi':
                    x = [list(s) for s in sc]
                    x[a][p] = dev
                    yield x


def blocks(tier, seed):
    out = []
    max_sub = 2 if tier == 'quick' else 3
    for nsub in range(1, max_sub + 1):  # a linker without submodels has an empty span (see 'construct')
        for si, sel in enumerate(selections(nsub)):
            out.append({'kind': 'scripted', 'nsub': nsub, 'sel': sel})
    for i in c02.catalogue_with_equations():
        out.append({'kind': 'bare', 'i': i})
    out.append({'kind': 'construct'})
    out.append({'kind': 'offset'})
    out.append({'kind': 'solve'})
    return out


def run_scripted(block, tier, acc):
    nsub, sel = block['nsub'], block['sel']
    n_actors = 1 + (nsub if sel is None else len([x for x in sel if x in IDS[:nsub]]))
    top = 3 if (tier == 'thorough' or n_actors <= 2) else 2
    for max_iter in range(0, top + 1):
        for min_iter in range(0, max_iter + 1):
            for failures in ('raise', 'ignore'):
                for tol in (0.5, 4.0):
                    acc.states += 1
                    for scripts in joint_scripts(n_actors, max_iter, tier):
                        case = dict(kind='scripted', nsub=nsub, sel=sel, min_iter=min_iter, max_iter=max_iter, failures=failures,
                                    tol=tol, scripts=scripts)
                        acc.evaluations += 1
                        acc.transitions += 1
                        try:
                            with guard(5):
                                v = run_scripted_case(case)
                        except CaseTimeout:
                            acc.violation('timeout', case, 'termination', 'timeout')
                            continue
                        acc.traces += 1
                        acc.nontrivial += 1
                        for key, exp, obs, what in v:
                            acc.violation(key, case, exp, obs, what)
                        if max_iter >= 2 and failures == 'ignore' and min_iter == 0:
                            # the same joint script with the linker's own movement made by its pre-evaluation code, and through solve_period
                            for extra, tag in ((dict(pre_moves=True), 'linker-moves-before-submodels'), (dict(entry='solve_period'), 'solve_period')):
                                case2 = dict(case, **extra)
                                acc.evaluations += 1
                                try:
                                    with guard(5):
                                        v = run_scripted_case(case2)
                                except CaseTimeout:
                                    acc.violation('timeout', case2, 'termination', 'timeout')
                                    continue
                                acc.nontrivial += 1
                                for key, exp, obs, what in v:
                                    acc.violation(key + ':' + tag, case2, exp, obs, what)
    acc.sample({'nsub': nsub, 'sel': sel, 'max_iter': 2, 'scripts': [['m', 'c']] * n_actors}, limit=2)
    acc.outcome(('sel', repr(sel)))


# --------------------------------------------------------------------------- bare-model law


_STACKED = {}


def _stacked_instance(i, like):
    if i not in _STACKED:
        base = c02.cat_model(i)
        _STACKED[i] = type('Stacked', (AliasMixin, TracerMixin, base), {'ALIASES': {'first_variable': base.NAMES[0]}})
    w = _STACKED[i](range(6))
    for name in like.names:
        w[name] = like[name].copy()
    return w


@robust()
def run_bare_case(case):
    i, dv = case['i'], case['dv']
    kw = dict(min_iter=case['min_iter'], max_iter=case['max_iter'], tol=case['tol'], failures='ignore', offset=case.get('offset', 0))
    m = c02.cat_instance(i, dv)
    w = c02.cat_instance(i, dv)
    if case.get('stacked'):
        # the wrapped submodel carries the library's own mixins (tracing off, aliases unused): the law is the same
        w = _stacked_instance(i, w)
    if case.get('check_edit'):
        # the model's own check list was edited after construction (on both sides alike): the linker judges the submodel by that list
        for o in (m, w):
            if case['check_edit'] == 'drop-last' and len(o.check) > 1:
                del o.check[-1]
            elif case['check_edit'] == 'add-exogenous' and type(o).EXOGENOUS:
                o.check.append(type(o).EXOGENOUS[0])
            elif case['check_edit'] == 'only-first':
                o.check[:] = o.check[:1]
    lk = BaseLinker({'m': w})
    t = case['t']
    if case.get('pre') == 'one-pass':
        # pre-history: the period already holds the result of one pass from the same starting point
        pk = dict(kw, max_iter=1, min_iter=0)
        refsolve.call_outcome(m.solve_t, t, **pk)
        refsolve.call_outcome(lk.solve_t, t, **pk)
    rm = refsolve.call_outcome(m.solve_t, t, **kw)[:2]
    rl = refsolve.call_outcome(lk.solve_t, t, **kw)[:2]
    out = []
    if rm != rl:
        out.append(('bare:result', rm, rl, 'linker around a single model returns a different result'))
    for name in m.index:
        if canon(m[name]) != canon(w[name]):
            out.append(('bare:%s' % ('values' if name not in ('status', 'iterations') else name),
                        m[name].tolist(), w[name].tolist(), 'linker around a single model differs from the bare model in %s' % name))
            break
    pos = t % 6
    if (str(lk.status[pos]), int(lk.iterations[pos])) != (str(m.status[pos]), int(m.iterations[pos])):
        out.append(('bare:linker-stamp', (str(m.status[pos]), int(m.iterations[pos])), (str(lk.status[pos]), int(lk.iterations[pos])),
                    'linker status/iterations differ from the bare model'))
    return out


def run_bare(block, tier, acc):
    i = block['i']
    for dv in (0, 1):
        for max_iter in ((0, 1, 2, 5, 60) if tier == 'quick' else (0, 1, 2, 3, 5, 10, 60, 200)):
            for min_iter in sorted({0, 2, max_iter}):
                if min_iter > max_iter:
                    continue
                for tol in (1e-10, 1e-6, 1e-3, 0.5, 2.0):
                    for t in (2, -3):
                        for offset, pre in ((0, None), (-1, None), (1, None), (-1, 'one-pass'), (0, 'one-pass')):
                            case = dict(kind='bare', i=i, dv=dv, min_iter=min_iter, max_iter=max_iter, tol=tol, t=t, offset=offset, pre=pre,
                                        script=c02.CATALOGUE[i])
                            acc.evaluations += 1
                            acc.transitions += 2
                            acc.traces += 1
                            acc.nontrivial += 1
                            if offset == 0 and not pre and len(c02.cat_model(i).ENDOGENOUS) > 1:
                                for edit in ('drop-last', 'only-first', 'add-exogenous'):
                                    case_e = dict(case, check_edit=edit)
                                    acc.evaluations += 1
                                    acc.nontrivial += 1
                                    for key, exp, obs, what in run_bare_case(case_e):
                                        acc.violation(key + ':edited-check-list', case_e, exp, obs, what)
                            if offset == 0 or pre:
                                case_s = dict(case, stacked=True)
                                acc.evaluations += 1
                                acc.nontrivial += 1
                                for key, exp, obs, what in run_bare_case(case_s):
                                    acc.violation(key + ':stacked-mixins', case_s, exp, obs, what)
                            for key, exp, obs, what in run_bare_case(case):
                                acc.violation(key + (':max_iter=0' if max_iter == 0 else '') + (':offset' if offset else ''), case, exp, obs, what)


# --------------------------------------------------------------------------- construction rules, offset, solve()


def lagged_class(lags, leads):
    return type('M%d%d' % (lags, leads), (BaseModel,), dict(
        ENDOGENOUS=['Y'], EXOGENOUS=[], PARAMETERS=[], ERRORS=[], NAMES=['Y'], CHECK=['Y'], LAGS=lags, LEADS=leads,
        _evaluate=lambda self, t, **kw: None))


@robust()
def run_construct_case(case):
    specs, n = case['specs'], case['n']
    out = []
    subs = {}
    shared = {}
    for j, (lags, leads, lo, extra) in enumerate(specs):
        if case.get('shared_span_objects') and lo != 'irregular':
            # submodels built on one and the same span object (the usual way to set a linker up)
            key = (lo, extra)
            if key not in shared:
                shared[key] = list(range(lo, lo + n + extra))
            subs['s%d' % j] = lagged_class(lags, leads)(shared[key])
            continue
        if lo == 'irregular':
            # same length, same first and last label as range(0, n + extra), another label in between
            labels = list(range(0, n + extra))
            labels[2] = 2.5
            subs['s%d' % j] = lagged_class(lags, leads)(labels)
        else:
            subs['s%d' % j] = lagged_class(lags, leads)(range(lo, lo + n + extra))
    differing = len({(lo, extra) for _, _, lo, extra in specs}) > 1
    n = n + (specs[0][3] if specs else 0)
    try:
        lk = BaseLinker(subs)
    except Exception as e:
        if not (differing and type(e).__name__ == 'InitialisationError'):
            out.append(('construct:exception', 'InitialisationError iff spans differ', type(e).__name__, 'unexpected construction outcome'))
        return out
    if differing:
        out.append(('construct:differing-spans-accepted', 'InitialisationError', 'accepted', 'submodels with differing spans must be rejected'))
        return out
    want = (max([s[0] for s in specs] or [0]), max([s[1] for s in specs] or [0]))
    if (lk.LAGS, lk.LEADS) != want or (lk.lags, lk.leads) != want:
        out.append(('construct:lags-leads', want, (lk.LAGS, lk.LEADS, lk.lags, lk.leads), 'linker lag/lead lengths must be the maxima over submodels'))
        return out
    if specs:
        r = refsolve.call_outcome(lk.solve, max_iter=2)
        if r[0] == 'value':
            labels = list(r[2][0])
            full = list(subs['s0'].span)
            expected = full[want[0]:len(full) - want[1]]
            if labels != expected:
                out.append(('construct:default-range', expected, labels, 'default solve range of the linker'))
        elif want[0] + want[1] < n:
            out.append(('construct:solve-failed', 'solve() ok', r[0], 'linker solve() failed'))
    return out


class Holder(BaseModel):
    # a hand-written model that declares no endogenous variable and still does its work in _evaluate()
    ENDOGENOUS = []
    EXOGENOUS = ['Y', 'X']
    PARAMETERS = []
    ERRORS = []
    NAMES = ['Y', 'X']
    CHECK = []

    def _evaluate(self, t, **kw):
        self._Y[t] = self._X[t] + 10.0


_EMPTY_PROGRAM = fsic.build_model(fsic.parse_model(''))


@robust()
def run_undeclared_case(case):
    """The single-model law for models without endogenous variables (an empty program; a data holder whose _evaluate() writes an
    undeclared output), alone in a linker and next to an ordinary submodel: evaluated once per iteration, stamped like the others."""
    def mk():
        if case['model'] == 'empty-program':
            return _EMPTY_PROGRAM(range(4))
        return Holder(range(4), X=[1.0, 2.0, 3.0, 4.0])
    kw = dict(max_iter=case['max_iter'], min_iter=case['min_iter'], failures='ignore')
    m, w = mk(), mk()
    subs = {'m': w}
    if case['with_sibling']:
        subs['z'] = lagged_class(0, 0)(range(4))
    lk = BaseLinker(subs)
    rm = refsolve.call_outcome(m.solve_t, 1, **kw)[:2]
    rl = refsolve.call_outcome(lk.solve_t, 1, **kw)[:2]
    out = []
    got = (rl, str(w.status[1]), int(w.iterations[1]), [canon(w[n]) for n in w.names], str(lk.status[1]), int(lk.iterations[1]))
    want = (rm, str(m.status[1]), int(m.iterations[1]), [canon(m[n]) for n in m.names], str(m.status[1]), int(m.iterations[1]))
    if got != want:
        out.append(('bare:no-endogenous-variables:%s' % case['model'], [str(x)[:60] for x in want], [str(x)[:60] for x in got], 'a submodel without endogenous variables is not solved through the linker as it is on its own'))
    return out


def run_undeclared(acc, tier):
    for model in ('empty-program', 'holder'):
        for with_sibling in (False, True):
            for max_iter in (0, 1, 3):
                for min_iter in (0, 1, 3):
                    if min_iter > max_iter:
                        continue
                    case = dict(kind='undeclared', model=model, with_sibling=with_sibling, max_iter=max_iter, min_iter=min_iter)
                    acc.evaluations += 1
                    acc.nontrivial += 1
                    for key, exp, obs, what in run_undeclared_case(case):
                        acc.violation(key, case, exp, obs, what)


def run_construct(acc, tier):
    run_undeclared(acc, tier)
    n = 6
    ll = [(0, 0), (1, 0), (0, 2), (2, 1)]
    for k in range(0, 4):
        for combo in itertools.product(ll, repeat=k):
            # spans differ by where they start and/or by how long they are (same start, one span a prefix of the other)
            for los in itertools.product(((0, 0), (1, 0), (0, 1), (0, -2), ('irregular', 0)), repeat=k):
                specs = [(a, b, lo, extra) for (a, b), (lo, extra) in zip(combo, los)]
                for shared_objs in (False, True):
                    if shared_objs and (k < 2 or any(lo == 'irregular' for lo, _ in los)):
                        continue
                    case = {'kind': 'construct', 'specs': specs, 'n': n, 'shared_span_objects': shared_objs}
                    acc.evaluations += 1
                    acc.nontrivial += 1
                    for key, exp, obs, what in run_construct_case(case):
                        acc.violation(key + (':one-span-object' if shared_objs else ''), case, exp, obs, what)


class OffSub(BaseModel):
    ENDOGENOUS = ['A']
    EXOGENOUS = ['X']
    PARAMETERS = []
    ERRORS = []
    NAMES = ['A', 'X']
    CHECK = ['A']

    def _evaluate(self, t, **kw):
        self.__dict__.setdefault('seen', []).append((float(self._A[t]), float(self._X[t])))


class OffLk(BaseLinker):
    ENDOGENOUS = ['L', 'M']     # M is endogenous but not a check variable: it is seeded by an offset all the same
    EXOGENOUS = ['Z']
    PARAMETERS = []
    ERRORS = []
    NAMES = ['L', 'M', 'Z']
    CHECK = ['L']

    def solve_t_before(self, t, **kw):
        # (optional) the pre-solution hook writes endogenous values of the linker and of a submodel: as for a single model the
        # offset copy comes first, so what the hook writes is what the first pass sees
        if self.__dict__.get('hook_writes'):
            self._L[t] = 555.0
            self.submodels['a']._A[t] = 777.0

    def evaluate_t_before(self, t, **kw):
        self.__dict__.setdefault('seen', []).append((float(self._L[t]), float(self._Z[t])))
        self.__dict__.setdefault('seen_m', []).append(float(self._M[t]))


@robust()
def run_offset_case(case):
    t, offset, n = case['t'], case['offset'], 5
    subs = {k: OffSub(range(n), A=[10.0 * (j + 1) + i for i in range(n)], X=[100.0 * (j + 1) + i for i in range(n)]) for j, k in enumerate('ab')}
    lk = OffLk(subs, L=[1000.0 + i for i in range(n)], Z=[2000.0 + i for i in range(n)], M=[3000.0 + i for i in range(n)])
    init = observe(lk)
    sel = case['sel']
    if case.get('hook'):
        lk.__dict__['hook_writes'] = True
    res, cause, _ = refsolve.call_outcome(lk.solve_t, t, submodels=sel, offset=offset, max_iter=2, tol=0.5)
    pos = t % n
    src = pos + offset
    out = []
    if not (0 <= src < n):
        lk.__dict__.pop('hook_writes', None)
        if res != 'IndexError' or observe(lk) != init:
            out.append(('offset:out-of-span', 'IndexError, unchanged', [res, diff_obs(init, observe(lk))[:2]], 'offset outside the span must be rejected as for a single model'))
        return out
    seld = list(subs) if sel is None else sel
    exp = {'result': 'True', 'linker': (1000.0 + src, 2000.0 + pos), 'linker-unchecked-endogenous': 3000.0 + src}
    obs = {'result': res, 'linker': lk.__dict__.get('seen', [None])[0], 'linker-unchecked-endogenous': lk.__dict__.get('seen_m', [None])[0]}
    for j, k in enumerate('ab'):
        if k in seld:
            exp[k] = (10.0 * (j + 1) + src, 100.0 * (j + 1) + pos)
            obs[k] = subs[k].__dict__.get('seen', [None])[0]
        else:
            exp[k] = 10.0 * (j + 1) + pos
            obs[k] = float(subs[k].A[pos])
    if case.get('hook'):
        exp['linker'] = (555.0, 2000.0 + pos)
        exp['a'] = (777.0, 100.0 + pos) if 'a' in seld else 777.0
    if exp != obs:
        out.append(('offset:seed' + (':hook-writes' if case.get('hook') else ''), exp, obs, 'a non-zero offset must seed period t from t+offset (linker and selected submodels)' +
                    (' before the pre-solution hook runs' if case.get('hook') else '')))
    return out


def run_offset(acc, tier):
    n = 5
    for t in range(-n, n):
        for offset in range(-n - 1, n + 2):
            if offset == 0:
                continue
            for sel in (None, ['b'], ['b', 'a']):
                for hook in (False, True):
                    case = {'kind': 'offset', 't': t, 'offset': offset, 'sel': sel, 'hook': hook}
                    acc.evaluations += 1
                    acc.nontrivial += 1
                    acc.transitions += 1
                    for key, exp, obs, what in run_offset_case(case):
                        acc.violation(key, case, exp, obs, what)


@robust()
def run_solve_case(case):
    """linker.solve() == loop of linker.solve_t over the default / chosen range."""
    nsub = 2
    scripts = case['scripts']
    out = []

    def mk():
        lk, subs = make(nsub, [[]] + [[]] * nsub, 0.5, IDS[:nsub])
        lk.__dict__['script'] = list(scripts)
        return lk, subs

    a, sa = mk()
    b, sb = mk()
    kw = dict(max_iter=2, tol=0.5, failures=case['failures'], min_iter=case.get('min_iter', 0))
    # a selection is a sequence of ids, whatever its type (list, tuple, keys of a dict): the loop below always passes a list
    sel = case.get('sel')
    kw_a = dict(kw)
    if sel is not None:
        kw['submodels'] = list(sel)
        kw_a['submodels'] = {'list': list, 'tuple': tuple, 'dict-keys': lambda x: dict.fromkeys(x).keys()}[case.get('sel_type', 'list')](sel)
    del LOG[:]
    ra = refsolve.call_outcome(a.solve, start=case['start'], end=case['end'], **kw_a)
    s0 = 0 if case['start'] is None else case['start']
    e0 = 3 if case['end'] is None else case['end']
    flags, exc = [], None
    for t in range(s0, e0 + 1):
        r = refsolve.call_outcome(b.solve_t, t, **kw)
        if r[0] not in ('True', 'False'):
            exc = r[:2]
            break
        flags.append(r[0] == 'True')
    exp = exc if exc else ('value', 'none', flags)
    obs = ra[:2] if ra[0] != 'value' else ('value', 'none', [bool(x) for x in ra[2][2]])
    if exp != obs:
        out.append(('solve:return', exp, obs, 'linker.solve() differs from the loop of linker.solve_t'))
    if observe(a) != observe(b):
        out.append(('solve:state', 'equal', diff_obs(observe(b), observe(a)), 'linker.solve() leaves a different state'))
    return out


def run_solve(acc, tier):
    for scripts in itertools.product('cm', repeat=4):
        for start, end in itertools.product([None, 0, 1, 2, 3], repeat=2):
            for failures in ('raise', 'ignore'):
                case = {'kind': 'solve', 'scripts': list(scripts) * 2, 'start': start, 'end': end, 'failures': failures}
                acc.evaluations += 1
                acc.nontrivial += 1
                acc.transitions += 1
                for key, exp, obs, what in run_solve_case(case):
                    acc.violation(key, case, exp, obs, what)
                for min_iter in (1, 2):   # 2 == max_iter: exactly two passes
                    case3 = dict(case, min_iter=min_iter)
                    acc.evaluations += 1
                    acc.nontrivial += 1
                    for key, exp, obs, what in run_solve_case(case3):
                        acc.violation(key + ':min_iter=%d' % min_iter, case3, exp, obs, what)
                if start in (None, 1) and end in (None, 2):
                    for sel in ([], [IDS[1]], [IDS[1], IDS[0]], [IDS[0], IDS[1]]):
                        for sel_type in ('list', 'tuple', 'dict-keys'):
                            case2 = dict(case, sel=sel, sel_type=sel_type)
                            acc.evaluations += 1
                            acc.nontrivial += 1
                            for key, exp, obs, what in run_solve_case(case2):
                                acc.violation(key + ':selection-as-' + sel_type, case2, exp, obs, what)


def run_block(block, tier, seed):
    acc = Acc()
    k = block['kind']
    if k == 'scripted':
        run_scripted(block, tier, acc)
    elif k == 'bare':
        run_bare(block, tier, acc)
    elif k == 'construct':
        run_construct(acc, tier)
    elif k == 'offset':
        run_offset(acc, tier)
    elif k == 'solve':
        run_solve(acc, tier)
    return acc


def run_one(case):
    k = case['kind']
    return {'scripted': run_scripted_case, 'bare': run_bare_case, 'construct': run_construct_case,
            'offset': run_offset_case, 'solve': run_solve_case, 'undeclared': run_undeclared_case}[k](case)


def finalize(acc, tier, seed):
    return {'max_submodels': 2 if tier == 'quick' else 3}
