# -*- coding: utf-8 -*-
"""C17 - tracing never changes a solution and records it faithfully.

Deciding step: every terminal trace of the C06 TLC model (full fault alphabet) is replayed on three twins -
tracer-extended model with trace=..., the same class without tracing, the plain class - for every trace
argument, entry point and one repeated solve; observables and the recorded label/snapshot sequence are
compared with the scripted model's own pass log. Parser-built systems: snapshot j must equal a twin solved
with max_iter=j.
"""
import numpy as np

import fsic
from fsic.extensions import AliasMixin, TracerMixin

from .. import refsolve, scripted
from ..core.observe import canon
from ..core.runner import Acc, guard, CaseTimeout, robust
from . import c02, c06

ID = 'C17'
LEVEL = 'model_checking'
TECHNIQUE = 'exhaustive replay of all TLC model traces on traced/untraced/plain twins (differential), label and snapshot sequence oracle from the pass log'
RULE = ('every terminal state of SolveT.tla (full alphabet, N=3 quick / 4 thorough) x trace in {True, [A,B], "A"} x entry in '
        '{solve_t, solve_period, solve} x second solve of the same period; Alias+Tracer classes (both orders) with aliases in trace=, a class with a renamed trace attribute; parser-built catalogue x max_iter with per-pass twin. '
        'non-trivial = traced execution that records at least one snapshot'
        ' Variables named size/index/span/values, repeated names, a class tracing nothing, an instance-level TRACE_VARIABLES, a second traced run, the table view of each trace.'
        ' An underscore-prefixed model variable; trace=np.True_.')
ASSUMPTIONS = c02.ASSUMPTIONS + [
    'a pass that raised before completing leaves no snapshot (the trace stops after the last completed pass)',
    'values compared bit-for-bit; NaN payloads as NumPy stores them',
]

_INFO = None


class TScripted(TracerMixin, scripted.ScriptedBase, fsic.BaseModel):
    pass


# the tracer combined with the alias mixin (either order): a variable may be named by an alias in trace=...
_ALIASES = {'alpha': 'A', 'beta': 'B', 'first': 'alpha', 'ab': 'AB'}


class ATScripted(AliasMixin, TracerMixin, scripted.ScriptedBase, fsic.BaseModel):
    ALIASES = dict(_ALIASES)


class TAScripted(TracerMixin, AliasMixin, scripted.ScriptedBase, fsic.BaseModel):
    ALIASES = dict(_ALIASES)


# the documented way to move the traces out of the way of a model variable called 'trace'
class RScripted(TracerMixin, scripted.ScriptedBase, fsic.BaseModel):
    TRACE_NAME = 'history'


# a class-level default list of traced variables: used for trace=True, never instead of a list given in the call
class VScripted(TracerMixin, scripted.ScriptedBase, fsic.BaseModel):
    TRACE_VARIABLES = ('B', 'A')   # (any sequence of names)


CLASSES = {'T': TScripted, 'AT': ATScripted, 'TA': TAScripted, 'R': RScripted, 'V': VScripted, 'Tc': TScripted}
DTYPES = {'Tc': complex}  # a rarely used constructor argument: the model's series are complex (values stay real)
ALIAS_TRACE_ARGS = [['alpha', 'B'], 'first', ['beta', 'ab', 'X'], 'alpha']


def canonical(n):
    while n in _ALIASES:
        n = _ALIASES[n]
    return n


def traces_of(m):
    return m[type(m).TRACE_NAME]


TRACE_ARGS = [True, ['A', 'B'], 'A', ['X', 'C', 'A'], 'AB', ['AB'], ('B', 'A')]   # names as a list, a single name, a tuple


def names_for(arg):
    if arg is True:
        return ['A', 'B', 'C', 'X', 'AB']
    if isinstance(arg, str):
        return [arg]
    return list(arg)


def blocks(tier, seed):
    global _INFO
    states, term, info = c02.load_traces(tier, c06.FULL, 'c17')
    c02._TRACES = term
    _INFO = info
    nb = 128
    step = (len(term) + nb - 1) // nb
    out = [{'kind': 'traces', 'lo': i, 'hi': min(i + step, len(term))} for i in range(0, len(term), step)]
    for i in c02.catalogue_with_equations():
        out.append({'kind': 'catalogue', 'i': i})
    out.append({'kind': 'dtypes'})
    return out


def values_of(m, names, pos):
    return [complex(m[n][pos]) for n in names]


def same(a, b):
    # compared as complex numbers: a model may be built with dtype=complex (the imaginary parts are zero throughout)
    return canon(np.array(a, dtype=complex)) == canon(np.array(b, dtype=complex))


_NP_T = [False]   # ask solve_t for the period with a NumPy integer (what np.arange / np.flatnonzero hand out)
_POS = [1, 1]   # (position of the period under test, the way solve_t is asked for it): [2, -1] = the last period, spelled -1


def build(cls, opts, hist, **init):
    m = scripted.make_scripted(list(range(3)), {_POS[0]: [(o, 0) for o in hist]}, opts['preHook'] == 'exc', opts['postHook'] == 'exc', cls=cls, hooks_write=True, **init)
    m.A = [1.0, 2.0, 3.0]
    m.B = [-1.0, -2.0, -3.0]
    m.X = [7.0, 8.0, 9.0]
    m.add_variable('AB', [0.5, 1.5, 2.5])  # a variable with a name of more than one character
    if opts['pre'] == 'nonfinite':
        m.A[_POS[0]] = np.nan
    return m


def call(m, entry, kw):
    if entry == 'solve_t':
        return refsolve.call_outcome(m.solve_t, np.int64(_POS[1]) if _NP_T[0] else _POS[1], **kw)[:2]
    if entry == 'solve_period':
        return refsolve.call_outcome(m.solve_period, _POS[0], **kw)[:2]
    r = refsolve.call_outcome(m.solve, start=_POS[0], end=_POS[0], **kw)
    if r[0] == 'value':
        return (str(bool(r[2][2][0])), r[1])
    return r[:2]


def model_state(m):
    return tuple((n, canon(m[n])) for n in ('A', 'B', 'C', 'X', 'AB', 'status', 'iterations'))


def expected_labels(exp, opts, hist):
    """Label sequences the statement allows for this execution (list of alternatives)."""
    if exp['preRuns'] == 0:
        return [['start'], []]  # rejected up front: solve() rejects before the period is entered at all
    if opts['preHook'] == 'exc':
        return [['start', 'before'], ['start', 'before', 0]]
    base = ['start', 'before', 0]
    k = exp['k']
    raised_in_pass = exp['result'] == 'SolutionError' and (exp['cause'] in ('exception', 'warning')) and exp['postRuns'] == 0 and k >= 1 and (
        hist[k - 1] == 'exc' or (hist[k - 1] == 'nanw' and opts['errors'] == 'raise' and opts['cfe']))
    if raised_in_pass:
        return [base + list(range(1, k))]  # the trace stops after the last COMPLETED pass: a pass that raised half-way leaves no snapshot
    seq = base + list(range(1, k + 1))
    if exp['postRuns']:
        if opts['postHook'] == 'exc':
            return [seq, seq + ['end']]
        return [seq + ['end']]
    return [seq]


@robust(1, True)
def run_case(case):
    opts, hist, arg, entry = case['opts'], case['hist'], case['trace'], case['entry']
    _POS[:] = [2, -1] if case.get('last') else [1, 1]
    _NP_T[0] = bool(case.get('numpy_t'))
    P = _POS[0]
    hist_full = hist + ['moved'] * 8
    exp = refsolve.ref_trace(opts, hist_full)
    kw = dict(min_iter=opts['minIter'], max_iter=opts['maxIter'], tol=scripted.TOL, failures=opts['failures'],
              errors=opts['errors'], catch_first_error=opts['cfe'])
    TCls = CLASSES[case.get('cls', 'T')]
    init_kw = {'dtype': DTYPES[case['cls']]} if case.get('cls') in DTYPES else {}
    traced, untraced, plain = build(TCls, opts, hist, **init_kw), build(TCls, opts, hist, **init_kw), build(scripted.Scripted, opts, hist, **init_kw)
    init = values_of(traced, ['A', 'B', 'C', 'X', 'AB'], P)
    out = []
    r1 = call(traced, entry, dict(kw, trace=arg))
    r0 = call(untraced, entry, kw)
    rp = call(plain, entry, kw)
    if not (r1 == r0 == rp):
        out.append(('differential:result', {'plain': rp}, {'traced': r1, 'untraced': r0}, 'tracing changed the result/exception'))
    if not (model_state(traced) == model_state(untraced) == model_state(plain)):
        out.append(('differential:state', 'equal values/status/iterations', 'differ', 'tracing changed the stored solution'))
    if not all(tr.is_empty() and tr.index == [] for tr in traces_of(untraced)):
        out.append(('untraced:trace-written', 'all traces empty', [list(tr.index) for tr in traces_of(untraced)], 'a trace was written with tracing off'))
    if case.get('off_variants'):
        for off in (None, False):
            tw = build(TCls, opts, hist, **init_kw)
            roff = call(tw, entry, dict(kw, trace=off))
            if roff != rp or model_state(tw) != model_state(plain):
                out.append(('differential:trace=%r' % off, {'plain': rp}, {'trace=%r' % off: roff}, 'an explicit trace=%r changed the solution' % off))
            if not all(tr.is_empty() and tr.index == [] for tr in traces_of(tw)):
                out.append(('untraced:trace-written:trace=%r' % off, 'all traces empty', [list(tr.index) for tr in traces_of(tw)], 'a trace was written with trace=%r' % off))
    if not all(tr.is_empty() for i, tr in enumerate(traces_of(traced)) if i != P):
        out.append(('traced:other-period', 'only the period solved is traced', [list(tr.index) for tr in traces_of(traced)], 'trace written for another period'))
    tr = traces_of(traced)[P]
    labels = list(tr.index)
    allowed = expected_labels(exp, opts, hist_full)
    names = list(TCls.TRACE_VARIABLES) if (arg is True and getattr(TCls, 'TRACE_VARIABLES', None)) else names_for(arg)
    if labels not in allowed:
        out.append(('labels:first-solve', allowed, labels, 'trace label sequence differs from start, before, 0, 1..k, end'))
    elif labels:
        if list(tr.names) != names:
            out.append(('names', names, list(tr.names), 'traced variable names differ'))
        elif tr.values.shape != (len(names), len(labels)):
            out.append(('shape', [len(names), len(labels)], list(tr.values.shape), 'trace array shape'))
        else:
            idx = [['A', 'B', 'C', 'X', 'AB'].index(canonical(n)) for n in names]
            log = [e for e in traced.sc_log() if e[0] == 'eval']
            final = values_of(traced, [canonical(n) for n in names], P)
            after_pre = list(init)
            after_pre[2] += 1000.0  # the scripted pre-solution hook adds 1000 to C
            post_ran = traced.sc_count('post') > 0
            before_post = values_of(traced, ['A', 'B', 'C', 'X', 'AB'], P)
            if post_ran:
                before_post[2] -= 5000.0  # ... and the post-solution hook adds 5000
            for col, lab in enumerate(labels):
                got = tr.values[:, col].tolist()
                if lab in ('start', 'before'):
                    want = [init[i] for i in idx]
                elif lab == 0:
                    want = [after_pre[i] for i in idx]
                elif lab == 'end':
                    want = final
                else:
                    j = lab
                    if j < len(log):
                        want = [(log[j][3] + (init[4],))[i] for i in idx]  # entry values of pass j+1 == values after pass j (AB never changes)
                    else:
                        want = [before_post[i] for i in idx]
                if want is not None and not same(got, want):
                    out.append(('snapshot:%s' % (lab if isinstance(lab, str) else 'pass'), want, got,
                                'snapshot %r does not hold the traced values after that step' % (lab,)))
                    break
    # repeated solve of the same period (reset=False): a second segment is appended, the first is kept
    if case.get('again') and not out:
        n1 = len(labels)
        pre2 = 'finite' if np.all(np.isfinite([traced.A[P], traced.B[P]])) else 'nonfinite'
        opts2 = dict(opts, pre=pre2)
        exp2 = refsolve.ref_trace(opts2, ['moved'] * 16)
        r1b = call(traced, entry, dict(kw, trace=arg))
        r0b = call(untraced, entry, kw)
        if r1b != r0b or model_state(traced) != model_state(untraced):
            out.append(('differential:second-solve', r0b, r1b, 'tracing changed the second solve'))
        labels2 = list(traces_of(traced)[P].index)
        if labels2[:n1] != labels:
            out.append(('labels:first-segment-lost', labels, labels2[:n1], 'reset=False must keep the earlier segment'))
        elif labels2[n1:] not in expected_labels(exp2, opts2, ['moved'] * 16):
            out.append(('labels:second-solve', expected_labels(exp2, opts2, ['moved'] * 16), labels2[n1:], 'second segment label sequence'))
    return out, bool(labels)


def run_traces(block, tier, acc):
    for s in c02._TRACES[block['lo']:block['hi']]:
        opts = {k: s[k] for k in c02.OPT_KEYS}
        hist = list(s['hist'])
        acc.traces += 1
        acc.outcome((s['result'], s['status']))
        for ai, arg in enumerate(TRACE_ARGS):
            for entry in ('solve_t', 'solve_period', 'solve'):
                if tier == 'quick' and ai >= 1 and entry != 'solve_t':
                    continue
                case = {'kind': 'trace', 'opts': opts, 'hist': hist, 'trace': arg, 'entry': entry, 'again': ai == 0 or tier == 'thorough',
                        'off_variants': ai == 0}
                acc.evaluations += 1
                try:
                    with guard(5):
                        v, nontrivial = run_case(case)
                except CaseTimeout:
                    acc.violation('timeout', case, 'termination', 'timeout')
                    continue
                acc.nontrivial += bool(nontrivial)
                for key, exp, obs, what in v:
                    acc.violation(key + ':' + entry, case, exp, obs, what)
        # the other tracer classes: aliases in trace=..., a renamed trace attribute
        extra = [('AT', ALIAS_TRACE_ARGS[0], 'solve_t'), ('AT', 'first', 'solve'), ('TA', ALIAS_TRACE_ARGS[2], 'solve_t'), ('TA', 'alpha', 'solve_period'),
                 ('R', True, 'solve_t'), ('R', 'AB', 'solve'), ('V', True, 'solve_t'), ('V', ['A', 'X'], 'solve'), ('V', 'AB', 'solve_period'), ('Tc', True, 'solve_t'), ('Tc', ['A', 'B'], 'solve')]
        extra_last = [('T', True, 'solve_t'), ('T', ['A', 'B'], 'solve_t'), ('T', 'A', 'solve')]
        extra_np = [('T', True, 'solve_t'), ('T', ['B', 'A'], 'solve_t')]   # the position as np.int64   # the LAST period of the span, asked for as position -1
        if tier != 'quick':
            extra += [(c, a, e) for c in ('AT', 'TA') for a in ALIAS_TRACE_ARGS + [True] for e in ('solve_t', 'solve')] + [('R', ['A', 'B'], 'solve_period')]
        for cname, arg, entry, last in [x + (False,) for x in extra] + [x + (True,) for x in extra_last] + [x + ('np',) for x in extra_np]:
            if True:
                case = {'kind': 'trace', 'opts': opts, 'hist': hist, 'trace': arg, 'entry': entry, 'again': False, 'off_variants': arg is True, 'cls': cname, 'last': last is True, 'numpy_t': last == 'np'}
                acc.evaluations += 1
                try:
                    with guard(5):
                        v, nontrivial = run_case(case)
                except CaseTimeout:
                    acc.violation('timeout', case, 'termination', 'timeout')
                    continue
                acc.nontrivial += bool(nontrivial)
                for key, exp, obs, what in v:
                    acc.violation(key + ':' + entry + ':' + cname + (':last-period-as-minus-1' if last is True else ':numpy-integer-position' if last == 'np' else ''), case, exp, obs, what)
        acc.sample({'opts': opts, 'hist': hist, 'trace': 'True', 'entry': 'solve_t'}, limit=3)


# --------------------------------------------------------------------------- parser-built systems

_T_CLASSES = {}


def t_class(i):
    if i not in _T_CLASSES:
        base = c02.cat_model(i)
        _T_CLASSES[i] = type('Traced', (TracerMixin, base), {})
    return _T_CLASSES[i]


def fill(m, dv):
    for j, name in enumerate(m.names):
        base = [0.5, 1.0, 0.25][j % 3] if dv == 0 else [-1.0, 2.0, 0.125][j % 3]
        m[name] = [base + 0.125 * k for k in range(6)]
    for name in type(m).PARAMETERS:
        m[name] = 0.25
    return m


@robust()
def run_cat_case(case):
    i, dv, max_iter, arg = case['i'], case['dv'], case['max_iter'], case['trace']
    kw = dict(max_iter=max_iter, tol=case['tol'], failures='ignore', offset=case['offset'])
    T = t_class(i)
    a = fill(T(range(6)), dv)
    b = fill(T(range(6)), dv)
    p = fill(c02.cat_model(i)(range(6)), dv)
    out = []
    entry_state = {n: a[n].copy() for n in a.names}
    ra = refsolve.call_outcome(a.solve, trace=arg, **kw)
    rb = refsolve.call_outcome(b.solve, **kw)
    rp = refsolve.call_outcome(p.solve, **kw)
    if not (canon(ra) == canon(rb) == canon(rp)):
        out.append(('catalogue:result', canon(rp), canon(ra), 'tracing changed solve() return value'))
    for n in p.index:
        if not (canon(a[n]) == canon(b[n]) == canon(p[n])):
            out.append(('catalogue:state', n, 'differs', 'tracing changed the stored solution'))
            break
    if not all(tr.is_empty() for tr in b.trace):
        out.append(('catalogue:untraced-written', 'empty', 'non-empty', 'trace written with tracing off'))
    names = list(a.names) if arg is True else ([arg] if isinstance(arg, str) else list(arg))
    lags, leads = T.LAGS, T.LEADS
    if ra[0] != 'value':
        return out  # solve() raised (e.g. offset outside the span): only the differential part applies
    for pos in range(6):
        tr = a.trace[pos]
        if pos < lags or pos >= 6 - leads:
            if not tr.is_empty():
                out.append(('catalogue:unsolved-period-traced', 'empty', list(tr.index), 'trace written for a period that was not solved'))
            continue
        k = int(a.iterations[pos])
        solved = str(a.status[pos]) == '.'
        want = ['start', 'before', 0] + list(range(1, k + 1)) + (['end'] if solved else [])
        if list(tr.index) != want:
            out.append(('catalogue:labels', want, list(tr.index), 'label sequence'))
            continue
        if list(tr.names) != names:
            out.append(('catalogue:names', names, list(tr.names), 'trace names'))
            continue
        # 'start' is the period as it stood before this period was touched: endogenous values of earlier periods may have been
        # solved meanwhile, but position `pos` itself still holds what it held on entry to solve() (an offset copy comes after 'start')
        start_want = [float(entry_state[n][pos]) for n in names]
        if not same(tr.values[:, 0].tolist(), start_want):
            out.append(('catalogue:start-snapshot', start_want, tr.values[:, 0].tolist(), 'the start snapshot does not show the period as it stood before it was solved'))
        final = [float(a[n][pos]) for n in names]
        if not same(tr.values[:, -1].tolist(), final):
            out.append(('catalogue:final-snapshot', final, tr.values[:, -1].tolist(), 'final snapshot differs from the stored solution'))
        # per-pass twin: same model solved with max_iter=j for this period only, earlier periods solved fully
        for j in range(1, min(k, 4) + 1):
            tw = fill(c02.cat_model(i)(range(6)), dv)
            for q in range(lags, pos):
                tw.solve_t(q, **kw)
            tw.solve_t(pos, **dict(kw, max_iter=j))
            wantj = [float(tw[n][pos]) for n in names]
            if not same(tr.values[:, 3 + j - 1].tolist(), wantj):
                out.append(('catalogue:snapshot-pass', wantj, tr.values[:, 3 + j - 1].tolist(), 'snapshot %d differs from the values after pass %d' % (j, j)))
                break
    # a copy of a traced model has its own traces: tracing the copy again must not touch the original's record
    recorded0 = [(list(tr.index), tr.values.copy()) for tr in a.trace]
    cp = a.copy()
    refsolve.call_outcome(cp.solve, trace=arg, **kw)
    for pos, tr in enumerate(a.trace):
        if list(tr.index) != recorded0[pos][0] or not np.array_equal(tr.values, recorded0[pos][1], equal_nan=True):
            out.append(('catalogue:trace-shared-with-copy', recorded0[pos][0], list(tr.index), 'a traced solve of a copy appended to the trace of the original'))
            break
    # a recorded trace is a record: later changes to the model (a new variable) must not rewrite it
    recorded = [(list(tr.names), list(tr.index), tr.values.copy()) for tr in a.trace]
    a.add_variable('Zlater', 0.0)
    for pos, tr in enumerate(a.trace):
        n0, i0, v0 = recorded[pos]
        if list(tr.names) != n0 or list(tr.index) != i0 or not np.array_equal(tr.values, v0, equal_nan=True):
            out.append(('catalogue:trace-rewritten-by-add_variable', n0, list(tr.names), 'a recorded trace changed when a variable was added to the model afterwards'))
            break
    return out


_DT_MODEL = fsic.build_model(fsic.parse_model('Y = Y[-1] + X\nZ = Y - 2 * X'))
_DT_TRACED = type('TracedDT', (TracerMixin, _DT_MODEL), {})


@robust()
def run_dtype_case(case):
    """A model built with another dtype (large integers, single precision, complex): the snapshots hold the values the model
    holds - the final one equals the stored solution exactly, whatever the dtype."""
    dt = {'int64': np.int64, 'float32': np.float32, 'complex': complex, 'float64': float}[case['dtype']]
    big = 2 ** 60 + 3 if case['dtype'] == 'int64' else (2 ** 20 + 0.5 if case['dtype'] != 'complex' else 1.5 + 2j)

    def mk(cls):
        m = cls(range(5), dtype=dt)
        m.Y = [big + k for k in range(5)]
        m.X = [3 + k for k in range(5)]
        return m

    a, b = mk(_DT_TRACED), mk(_DT_MODEL)
    kw = dict(max_iter=4, failures='ignore', errors=case['errors'])
    ra = refsolve.call_outcome(a.solve, trace=case['trace'], **kw)
    rb = refsolve.call_outcome(b.solve, **kw)
    out = []
    if canon(ra) != canon(rb) or any(canon(a[n]) != canon(b[n]) for n in b.index):
        out.append(('dtype:differential', canon(rb)[:2], canon(ra)[:2], 'tracing changed the solution of a %s model' % case['dtype']))
        return out
    names = list(a.names) if case['trace'] is True else list(case['trace'])
    for pos in range(1, 5):
        tr = a.trace[pos]
        if tr.is_empty():
            out.append(('dtype:no-trace', 'a trace', 'empty', 'no trace for a solved period'))
            break
        final = [a[n][pos].item() for n in names]
        got = [x.item() if hasattr(x, 'item') else x for x in tr.values[:, -1]]
        if got != final:
            out.append(('dtype:final-snapshot', [repr(x) for x in final], [repr(x) for x in got], 'the final snapshot of a %s model is not the stored solution' % case['dtype']))
            break
    return out


_NM_MODEL = fsic.build_model(fsic.parse_model('size = 0.5 * size[-1] + index\nY = size + span * 2\nvalues = Y - 1\n_Ybase = 0.25 * Y'))   # (an underscore-prefixed model variable is a model variable)
_NM_TRACED = type('TracedNM', (TracerMixin, _NM_MODEL), {})
_NM_EMPTY = type('TracedNone', (TracerMixin, _NM_MODEL), {'TRACE_VARIABLES': []})


@robust()
def run_names_case(case):
    """Variables named like attributes of the object (size, index, span, values), a traced name given twice, and a class that
    traces no variable at all: the solution is untouched, the labels are start, before, 0..k, end, snapshot j holds the values
    after pass j (final = stored solution), and the table view of a trace has one column per traced name."""
    def mk(cls):
        m = cls(range(5))
        m['size'] = [1.0 + k for k in range(5)]
        m['index'] = [3.0 + k for k in range(5)]
        m['span'] = [0.5 * k for k in range(5)]
        return m

    cls = _NM_EMPTY if case['trace'] == 'class-empty-list' else _NM_TRACED
    arg = True if case['trace'] in ('class-empty-list', 'instance-list') else np.True_ if case['trace'] == 'numpy-true' else case['trace']
    a, b = mk(cls), mk(_NM_MODEL)
    if case['trace'] == 'instance-list':
        a.TRACE_VARIABLES = ['Y', 'size']   # the list of one instance: used for trace=True on that instance
    kw = dict(max_iter=4, failures='ignore')
    ra = refsolve.call_outcome(a.solve, trace=arg, **kw)
    rb = refsolve.call_outcome(b.solve, **kw)
    out = []
    if canon(ra) != canon(rb) or any(canon(a[n]) != canon(b[n]) for n in b.index):
        out.append(('names:differential', canon(rb)[:2], canon(ra)[:2], 'tracing changed the solution (or raised) for variables named like attributes'))
        return out
    names = [] if case['trace'] == 'class-empty-list' else ['Y', 'size'] if case['trace'] == 'instance-list' else (list(a.names) if (arg is True or case['trace'] == 'numpy-true') else ([arg] if isinstance(arg, str) else list(arg)))
    for pos in range(1, 5):
        tr = a['trace'][pos]
        k = int(a.iterations[pos])
        want_labels = ['start', 'before'] + list(range(0, k + 1)) + ['end']
        labels = list(tr.index)
        if [str(x) for x in labels] != [str(x) for x in want_labels]:
            out.append(('names:labels', want_labels, labels, 'snapshot labels of a solved period'))
            break
        if list(tr.names) != names:
            out.append(('names:traced-names', names, list(tr.names), 'the trace names other variables than asked for'))
            break
        vals = np.asarray(tr.values)
        if names:
            final = [float(a[n][pos]) for n in names]
            got = [float(x) for x in vals[:, -1]]
            if got != final:
                out.append(('names:final-snapshot', final, got, 'the final snapshot is not the stored solution'))
                break
        try:
            df = tr.to_dataframe()
        except Exception as e:
            out.append(('names:table:%s' % type(e).__name__, 'a table', repr(e)[:120], 'the table view of a trace fails'))
            break
        if df.shape != (len(labels), len(names)) or [str(c) for c in df.columns] != names or (names and not np.array_equal(np.asarray(df.values, dtype=float), np.asarray(vals, dtype=float).T)):
            out.append(('names:table', [len(labels), names], [list(df.shape), [str(c) for c in df.columns]], 'the table view of a trace does not have one column per traced name holding its snapshots'))
            break
    if out:
        return out
    # the same periods solved (and traced) a second time: with reset=False the second run is appended, and the table view has one row
    # per snapshot of both runs
    first_len = {pos: len(list(a['trace'][pos].index)) for pos in range(1, 5)}
    refsolve.call_outcome(a.solve, trace=arg, **kw)
    for pos in range(1, 5):
        tr = a['trace'][pos]
        labels = list(tr.index)
        k = int(a.iterations[pos])
        want_second = ['start', 'before'] + list(range(0, k + 1)) + ['end']
        if [str(x) for x in labels[first_len[pos]:]] != [str(x) for x in want_second] or len(labels) <= first_len[pos]:
            out.append(('names:labels:second-run', want_second, labels[first_len[pos]:], 'the snapshots of a second traced run are not appended in order'))
            break
        try:
            df = tr.to_dataframe()
        except Exception as e:
            out.append(('names:table:second-run:%s' % type(e).__name__, 'a table', repr(e)[:120], 'the table view of a trace fails after a second run'))
            break
        if df.shape[0] != len(labels) or [str(x) for x in df.index] != [str(x) for x in labels] or (names and not np.array_equal(np.asarray(df.values, dtype=float), np.asarray(tr.values, dtype=float).T)):
            out.append(('names:table:second-run', len(labels), list(df.shape), 'after a second traced run the table view does not hold one row per snapshot'))
            break
    return out


def run_names(acc, tier):
    for trace in (True, ['size', 'Y'], 'index', ['values', 'span', 'size'], ['Y', 'size', 'Y'], ('Y', 'Y'), 'class-empty-list', 'instance-list', 'numpy-true', ['_Ybase', 'Y']):   # (trace=[] itself is falsy: tracing off)
        case = dict(kind='names', trace=trace if not isinstance(trace, tuple) else list(trace))
        acc.evaluations += 1
        acc.nontrivial += 1
        for key, exp, obs, what in run_names_case(case):
            acc.violation(key, case, exp, obs, what)


def run_dtypes(acc, tier):
    run_names(acc, tier)
    for dtype in ('int64', 'float32', 'complex', 'float64'):
        for trace in (True, ['Y', 'Z'], ['X', 'Y']):
            for errors in ('raise', 'ignore'):
                case = dict(kind='dtype', dtype=dtype, trace=trace, errors=errors)
                acc.evaluations += 1
                acc.nontrivial += 1
                for key, exp, obs, what in run_dtype_case(case):
                    acc.violation(key + ':' + dtype, case, exp, obs, what)


def run_catalogue(block, tier, acc):
    i = block['i']
    cls = c02.cat_model(i)
    args = [True, list(cls.ENDOGENOUS), [cls.NAMES[-1]]] + [n for n in cls.NAMES if len(n) > 1][:1]
    for dv in (0, 1):
        for max_iter in ((1, 3, 60) if tier == 'quick' else (0, 1, 2, 3, 5, 60)):
            for tol in (1e-10, 0.01):
                for offset in (0, -1):
                    for arg in args:
                        case = dict(kind='catalogue', i=i, dv=dv, max_iter=max_iter, tol=tol, offset=offset, trace=arg, script=c02.CATALOGUE[i])
                        acc.evaluations += 1
                        acc.nontrivial += 1
                        try:
                            with guard(20):
                                v = run_cat_case(case)
                        except CaseTimeout:
                            acc.violation('catalogue:timeout', case, 'termination', 'timeout')
                            continue
                        for key, exp, obs, what in v:
                            acc.violation(key, case, exp, obs, what)


def run_block(block, tier, seed):
    acc = Acc()
    if block['kind'] == 'dtypes':
        run_dtypes(acc, tier)
    elif block['kind'] == 'traces':
        run_traces(block, tier, acc)
    else:
        run_catalogue(block, tier, acc)
    return acc


def run_one(case):
    if case['kind'] == 'trace':
        return run_case(case)[0]
    if case['kind'] == 'dtype':
        return run_dtype_case(case)
    if case['kind'] == 'names':
        return run_names_case(case)
    return run_cat_case(case)


def finalize(acc, tier, seed):
    acc.states = _INFO['tlc_distinct_states']
    acc.transitions = _INFO['tlc_transitions']
    return dict(_INFO)
