# -*- coding: utf-8 -*-
"""C06 - numerical-error and failure policies follow the documented state machine.

Deciding step: TLC over models/SolveT.tla with the FULL outcome alphabet (conv, moved, non-finite with a
warning, non-finite stored silently, Python exception) x errors x failures x catch_first_error x min/max_iter
x pre-existing non-finite x failing hooks; every terminal state replayed on `BaseModel.solve_t` under
concretisation deviations (which variable, NaN/+inf/-inf, which warning, which exception). Plus parser-built
models that fault *naturally* at pass K, against the reference loop, and the weak invariants under an
invalid `errors` value.
"""
import numpy as np

import fsic

from .. import refsolve, scripted
from ..core.runner import Acc, guard, CaseTimeout, robust
from . import c02

ID = 'C06'
LEVEL = 'model_checking'
TECHNIQUE = 'explicit-state model checking (TLC) with fault transitions + exhaustive replay of all model traces on BaseModel.solve_t; exhaustive natural-fault placement lattice on parser-built models'
RULE = ('TLC over SolveT.tla with Outcomes={conv,moved,nanw,nans,exc}; every terminal state replayed on solve_t with single '
        '(quick) / pairwise (thorough) concretisation deviations; natural-fault parser models x (K, cap, min/max_iter, errors incl. invalid, '
        'failures, catch_first_error, period) vs reference loop. non-trivial = a fault or a rejection occurs in the execution'
        " Models built with dtype=np.longdouble and finite check values beyond float64 (3 magnitudes x 4 policies x options); an errors value naming no policy never ends in a policy's status.")
ASSUMPTIONS = c02.ASSUMPTIONS + [
    'excluded sub-alphabet: conv immediately after a replaced non-finite pass (statement ambiguous, DESIGN C06)',
    'an `errors` value that names none of the four policies: the statement fixes the outcome by `errors`, so no policy outcome may be recorded; the check demands the ValueError the code documents, at whichever pass first needs a policy (an up-front ValueError would satisfy it too)',
    'extended precision: finiteness is judged in the dtype the model was built with (np.longdouble where it is wider than float64)',
    'errors=<invalid>: only status alphabet, flag iff ".", termination are demanded',
]

FULL = ['conv', 'moved', 'nanw', 'nans', 'exc']
_INFO = None

NATURAL = [
    ('div-second', 'A = min(A + 1, {M})\nY = 1 / (A - {K})'),
    ('div-first', 'Y = 1 / (A - {K})\nA = min(A + 1, {M})'),
    ('log-zero', 'A = min(A + 1, {M})\nY = log({K} + 1 - A) + 0 * A'),
    ('exp-overflow', 'A = min(A + 1, {M})\nY = exp(800 * (1 - abs(A - {K})))'),
    ('inf-times-zero', 'A = min(A + 1, {M})\nB = 1 / (A - {K})\nY = B * 0'),
    ('silent-nan', "A = min(A + 1, {M})\nY = `float('nan')` if A == {K} else A"),
    ('python-exception', "A = min(A + 1, {M})\nY = `1.0 / (float(self._A[t]) - float(self._K[t]))` + 0 * {K}"),
]
_NAT_CLASSES = {}


def nat_class(i):
    if i not in _NAT_CLASSES:
        _NAT_CLASSES[i] = fsic.build_model(fsic.parse_model(NATURAL[i][1]))
    return _NAT_CLASSES[i]


def nat_instance(i, K, M, pre):
    m = nat_class(i)(range(4))
    m.K = float(K)
    m.M = float(M)
    if pre == 'nan':
        m.Y[2] = np.nan
    elif pre == 'inf':
        m.A[2] = np.inf
    elif pre == 'nan-at-source':
        m.Y[1] = np.nan  # period 2 is clean; an offset of -1 copies the NaN in
    elif pre == 'nan-overwritten':
        m.Y[2] = np.nan  # an offset of -1 overwrites it with the finite values of period 1
    return m


def blocks(tier, seed):
    global _INFO
    states, term, info = c02.load_traces(tier, FULL, 'c06')
    c02._TRACES = term
    _INFO = info
    nb = 128 if tier == 'quick' else 256
    step = (len(term) + nb - 1) // nb
    out = [{'kind': 'traces', 'lo': i, 'hi': min(i + step, len(term))} for i in range(0, len(term), step)]
    for i in range(len(NATURAL)):
        for K in (1, 2, 3):
            out.append({'kind': 'natural', 'i': i, 'K': K})
    out.append({'kind': 'extended-precision'})
    return out


@robust(2, (False, ("exception",)))
def run_nat_case(case):
    i = case['i']
    kw = dict(min_iter=case['min_iter'], max_iter=case['max_iter'], tol=1e-10, failures=case['failures'],
              errors=case['errors'], catch_first_error=case['cfe'], offset=case.get('offset', 0))
    a = nat_instance(i, case['K'], case['M'], case['pre'])
    b = nat_instance(i, case['K'], case['M'], case['pre'])
    t = case['t']
    res, cause, _ = refsolve.call_outcome(a.solve_t, t, **kw)
    out = []
    if case['errors'] not in ('raise', 'skip', 'ignore', 'replace'):
        st = [str(s) for s in a.status]
        if not set(st) <= {'-', '.', 'F', 'E', 'S'}:
            out.append(('invalid-errors:status-alphabet', "subset of '-.FES'", st, 'status outside the alphabet'))
        if (res == 'True') != (str(a.status[t]) == '.'):
            out.append(('invalid-errors:flag', 'True iff "."', [res, str(a.status[t])], 'solved flag inconsistent with status'))
        # an `errors` value that names no policy is refused with ValueError at the pass that first needs a policy - whichever pass that is
        # (also the last permitted one): no policy's status is recorded in its place
        ref = refsolve.ref_loop(b, t, **kw)
        if ref.result == 'ValueError' and res != 'ValueError':
            out.append(('invalid-errors:served', 'ValueError', [res, str(a.status[t]), int(a.iterations[t])], 'a fault under an errors value that names no policy was served as if a policy applied'))
        return out, False, (res, str(a.status[t]))
    ref = refsolve.ref_loop(b, t, **kw)
    if ref.ambiguous:
        return [], True, None
    exp = {'result': ref.result, 'cause': ref.cause}
    obs = {'result': res, 'cause': cause}
    for name in list(b.index):
        if b[name].tobytes() != a[name].tobytes():
            exp[name] = b[name].tolist()
            obs[name] = a[name].tolist()
    if exp != obs:
        fields = '+'.join(sorted(k for k in exp if exp[k] != obs.get(k)))
        out.append(('natural:%s:%s:errors=%s' % (NATURAL[i][0], fields, case['errors']), exp, obs,
                    'solve_t differs from the documented policy on a naturally faulting model'))
    return out, False, (res, cause, str(a.status[t]), int(a.iterations[t]))


def run_natural(block, tier, acc):
    i, K = block['i'], block['K']
    max_iters = range(0, 6) if tier == 'quick' else range(0, 8)
    for M in sorted({K, K + 1, 5}):
        for max_iter in max_iters:
            for min_iter in sorted({0, 2, K + 1, max_iter + 1}):
                for errors in ('raise', 'skip', 'ignore', 'replace', 'bogus'):
                    for failures in ('raise', 'ignore'):
                        for cfe in (True, False):
                            for pre, offset in (('none', 0), ('nan', 0), ('inf', 0), ('nan-at-source', -1), ('nan-overwritten', -1), ('none', -1)):
                                for t in ((2,) if tier == 'quick' else (2, -2)):
                                    case = dict(kind='natural', i=i, K=K, M=M, max_iter=max_iter, min_iter=min_iter, errors=errors,
                                                failures=failures, cfe=cfe, pre=pre, offset=offset, t=t, script=NATURAL[i][1])
                                    acc.evaluations += 1
                                    try:
                                        with guard(10):
                                            v, amb, label = run_nat_case(case)
                                    except CaseTimeout:
                                        acc.violation('natural:timeout', case, 'termination', 'timeout')
                                        continue
                                    if amb:
                                        acc.n('excluded_replace_ambiguity')
                                        continue
                                    acc.outcome((NATURAL[i][0],) + tuple(label))
                                    if max_iter >= K or pre != 'none' or min_iter > max_iter:
                                        acc.nontrivial += 1
                                    for key, exp, obs, what in v:
                                        acc.violation(key, case, exp, obs, what)
    acc.sample({'kind': 'natural', 'script': NATURAL[i][1], 'K': K}, limit=2)


_LONG_MODEL = None


@robust()
def run_long_case(case):
    """A model built with dtype=np.longdouble whose check values are finite but beyond the largest float64: finite is judged in
    the model's own arithmetic, so no policy ever sees a fault (where the platform has no wider type the family is empty)."""
    global _LONG_MODEL
    if _LONG_MODEL is None:
        _LONG_MODEL = fsic.build_model(fsic.parse_model('Y = Y * {g} + X'))
    m = _LONG_MODEL(range(4), dtype=np.longdouble)
    big = np.longdouble(10) ** case['exponent']
    m.Y = big
    m.g = np.longdouble(case['g'])
    m.X = 0
    res, cause, _ = refsolve.call_outcome(m.solve_t, 2, max_iter=case['max_iter'], min_iter=case['min_iter'], tol=1e-6, failures='ignore',
                                          errors=case['errors'], catch_first_error=case['cfe'])
    first = max(1, case['min_iter'])
    if case['g'] == 1 and first <= case['max_iter']:
        want = ('True', '.', first)
    else:
        want = ('False', 'F', case['max_iter'])
    got = (res, str(m.status[2]), int(m.iterations[2]))
    if got != want:
        return [('extended-precision:errors=%s' % case['errors'], want, got, 'finite check values beyond the float64 range are treated as a fault')]
    return []


def run_long(acc, tier):
    if not (np.finfo(np.longdouble).max > np.finfo(np.float64).max):
        acc.n('no_extended_precision_on_this_platform')
        return
    for exponent in (300, 400, 4000):
        for g in (1, 0.5):
            for errors in ('raise', 'skip', 'ignore', 'replace'):
                for cfe in (True, False):
                    for max_iter in (1, 3):
                        for min_iter in (0, 2):
                            if min_iter > max_iter:
                                continue
                            case = dict(kind='extended-precision', exponent=exponent, g=g, errors=errors, cfe=cfe, max_iter=max_iter, min_iter=min_iter)
                            acc.evaluations += 1
                            acc.nontrivial += 1
                            for key, exp, obs, what in run_long_case(case):
                                acc.violation(key, case, exp, obs, what)


def run_block(block, tier, seed):
    acc = Acc()
    if block['kind'] == 'extended-precision':
        run_long(acc, tier)
        return acc
    if block['kind'] == 'traces':
        c02.run_traces(block, tier, acc)
    else:
        run_natural(block, tier, acc)
    return acc


def run_one(case):
    if case['kind'] == 'trace':
        return c02.run_one(case)
    if case['kind'] == 'extended-precision':
        return run_long_case(case)
    return run_nat_case(case)[0]


def finalize(acc, tier, seed):
    acc.states = _INFO['tlc_distinct_states']
    acc.transitions = _INFO['tlc_transitions']
    return dict(_INFO, excluded_subalphabet='conv immediately after a replaced non-finite pass')
