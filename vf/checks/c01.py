# -*- coding: utf-8 -*-
"""C01 - the generated model evaluates exactly the equations written in the script.

Deciding step: bounded exhaustive enumeration of programs (strata S1-S4 of vf/programs.py); for every accepted
program and every feasible period the real generated `_evaluate` is run over recording values under *every*
sequence of branch outcomes (E2) and the set of (path condition, writes) pairs is compared with CPython's own
evaluation of the same expression trees in symbol-list order. Equal sets = equal functions of the data for ALL
data. The normalised equation text is executed the same way, and a bit-exact numeric cross-check runs on two
float data vectors.
"""
import ast
import keyword
import re

import numpy as np

import fsic
from fsic.exceptions import ParserError, SymbolError

from .. import programs, symrec
from ..core.runner import Acc, guard, CaseTimeout, robust

ID = 'C01'
LEVEL = 'exploration'
TECHNIQUE = 'bounded exhaustive program enumeration x all branch-outcome sequences over recording values (stateless choice-point exploration), against CPython evaluation of the same expression trees'
RULE = ('strata S1 (term shapes: 28 names x 5 kind spellings x 9 index forms x 5 contexts + LHS uses), S2 (every binary/unary/call/ternary context over ordered '
        'tuples of 13 leaves), S3 (all expression shapes up to 5 (quick) / 6 (thorough) nodes over 4 leaves), S4 (all 2-3 equation systems over 8 (quick) / 12 '
        '(thorough) right-hand sides and every LHS ordering), SV (partial verbatim fragments), SL (47 contexts kept exactly as spelled: separate bracket groups, blanks before a call bracket, no blanks round operators); each accepted program x every feasible t x every branch-outcome sequence. '
        'plus 4 numeric vectors (the last seeds every variable at instantiation from one caller-owned array). non-trivial = accepted program whose evaluation writes at least one cell; distinct by script text'
        " Every accepted program also as a comment twin (a comment with an unbalanced bracket, '=' and a term on each line; fenced statements wrapped in an indented block with comments; class built with with_type_hints=False): same names, same LAGS/LEADS, same pass. LAGS/LEADS of every class equal the longest lag/lead written."
        ' LAGS/LEADS of each class equal the longest lag/lead written. Contexts with doubled brackets; statements with 2-3 verbatim fragments; a rejected script of the verbatim strata is a violation; twin comments hold two hashes.')
ASSUMPTIONS = [
    'scripts the parser rejects with its own error classes are not violations of C01 (C13/C14 judge rejections)',
    'elementary float operations, CPython operator dispatch, NumPy ufunc dispatch on objects and ast.unparse are trusted',
    'chained comparisons of the form a < b > c are not generated (the <error> syntax makes them ambiguous)',
]

FUNCTION_NAMES = {'exp', 'log', 'max', 'min', 'abs', 'float', 'int'}


def strata(tier):
    yield 'S1', programs.s1
    yield 'SV', programs.sv
    yield 'SL', programs.sl
    yield 'VS', programs.vs
    yield 'SN', programs.sn
    yield 'S2', programs.s2
    yield 'S3', (lambda: programs.s3(5)) if tier == 'quick' else (lambda: programs.s3(6))
    yield 'S4', (lambda: programs.s4(8)) if tier == 'quick' else (lambda: programs.s4(None))


def blocks(tier, seed):
    out = []
    for name, _ in strata(tier):
        nb = {'S1': 8, 'SV': 2, 'SL': 4, 'VS': 1, 'SN': 8, 'S2': 16, 'S3': 64 if tier == 'quick' else 256, 'S4': 32 if tier == 'quick' else 96}[name]
        for b in range(nb):
            out.append({'stratum': name, 'b': b, 'nb': nb})
    return out


class NS:
    pass


def equation_paths(symbols, names, span_len, t):
    """Execute the normalised `Symbol.equation` texts (backticks stripped) over recording values."""
    eqs = [s.equation.replace('`', '').strip('\n') for s in symbols if s.equation is not None and s.type.name in ('ENDOGENOUS', 'VERBATIM')]
    codes = [compile(e, '<equation>', 'exec') for e in eqs]

    def once():
        arrays, leaves = {}, {}
        ns = NS()
        for n in names:
            arr = np.empty(span_len, dtype=object)
            for i in range(span_len):
                leaf = symrec.Sym(('leaf', n, i))
                arr[i] = leaf
                leaves[(n, i)] = leaf
            arrays[n] = arr
            setattr(ns, '_' + n, arr)
        env = symrec.ref_env()
        env.update(arrays)
        env['t'] = t
        env['self'] = ns
        for code in codes:
            try:
                exec(code, {'__builtins__': {}}, env)
            except symrec.ReplayDivergence:
                raise
            except Exception as e:
                return ('EXC', type(e).__name__, str(e)[:80])
        return tuple(sorted(((k, symrec.T(arrays[k[0]][k[1]])) for k, leaf in leaves.items() if arrays[k[0]][k[1]] is not leaf)))

    return sorted(symrec.explore(once), key=repr)


def numeric_compare(p, Model, names, L, t, vec, span=None, label_pos=None):
    """Bit-exact: real _evaluate on float data vs CPython evaluation of the reference trees."""
    rng = np.random.RandomState(1234 + vec)
    data = {n: (rng.uniform(0.2, 1.9, L) * (1 if vec in (0, 2) else rng.choice([-1.0, 1.0], L))) for n in names}
    shared = keep = None
    if vec == 3 and any(n in ('self', 'span', 'engine', 'strict', 'dtype', 'default_value') for n in names):
        return None  # these names cannot be passed as constructor keywords (they are the constructor's own arguments)
    if vec == 3:
        # every variable is seeded, at instantiation, from ONE array object owned by the caller: the model must hold
        # its own copy per variable (a write to one variable is a write to that variable only) and leave the caller's array alone
        shared = data[names[0]].copy()
        keep = shared.copy()
        data = {n: keep for n in names}
        m = Model(range(L) if span is None else span, **{n: shared for n in names})
    else:
        m = Model(range(L) if span is None else span)
    for n in names:
        if vec == 3:
            continue
        if vec == 2:
            m[n] = list(range(L))      # a whole-series assignment of an all-integer list ...
            m[n][:] = data[n]          # ... then the float data, written in place: the series must still be a float series
        else:
            m[n] = data[n].copy()
    cells = {(n, i): np.float64(data[n][i]) for n in names for i in range(L)}
    exc_m = exc_r = None
    with np.errstate(all='ignore'):
        try:
            m._evaluate(t)
        except Exception as e:
            exc_m = type(e).__name__
        for (ln, lo), code, phmap in p.ref_eqs():
            env = symrec.ref_env()
            env['t'] = t
            env['self'] = symrec._SelfView(cells, label_pos or {})
            for ph, (n, o) in phmap.items():
                env[ph] = cells[(n, t + o)]
            try:
                v = eval(code, {'__builtins__': {}}, env)
                tmp = np.zeros(1)
                tmp[0] = v
                cells[(ln, t + lo)] = tmp[0]
            except Exception as e:
                exc_r = type(e).__name__
                break
    if shared is not None and shared.tobytes() != keep.tobytes():
        return ('caller-array-written', keep.tolist(), shared.tolist())
    if exc_m or exc_r:
        return None if exc_m == exc_r else ('exception', exc_r, exc_m)
    for (n, i), v in cells.items():
        got = m[n][i]
        if np.float64(v).tobytes() != np.float64(got).tobytes() and not (v != v and got != got):
            return ('value', (n, i, float(v)), float(got))
    return None


def feature_key(p):
    names = [t.name for e in p.eqs for t in e.terms_in_text_order()]
    if any(n.startswith('_') for n in names):
        return 'leading-underscore-name'
    if any(n in FUNCTION_NAMES or n in ('np', 'self', 't') for n in names):
        return 'name-collision:' + sorted(n for n in names if n in FUNCTION_NAMES or n in ('np', 'self', 't'))[0]
    return 'general'


@robust(1)
def check_program(p):
    """Returns (violations, outcome label)."""
    script = p.script()
    try:
        symbols = fsic.parse_model(script)
        Model = fsic.build_model(symbols)
    except (ParserError, SymbolError, IndentationError) as e:
        if p.stratum in ('SV', 'VS'):
            # the verbatim strata hold documented forms only (no name plays two roles): every one of them is a model
            return [('rejected:verbatim-stratum:%s' % type(e).__name__, 'a model', repr(e)[:160], 'a script with verbatim code in a documented form is rejected: %r' % script[:120])], 'rejected:' + type(e).__name__
        return _spelling_twin(p, type(e).__name__), 'rejected:' + type(e).__name__
    except Exception as e:
        return _spelling_twin(p, type(e).__name__), 'rejected-foreign:' + type(e).__name__
    out = []
    names = p.names_in_order()
    lags, leads = p.lags_leads()
    missing = [n for n in names if n not in Model.NAMES]
    fk = feature_key(p)
    if missing:
        return [('symbols:missing:' + fk, names, list(Model.NAMES), 'a name written in the script is not a model variable')], 'accepted'
    extra = [n for n in Model.NAMES if n not in names]
    if extra:
        return [('symbols:extra:' + fk, names, list(Model.NAMES), 'the model has a variable that is not a term of the script (a function name or keyword taken for a variable?)')], 'accepted'
    if (int(Model.LAGS), int(Model.LEADS)) != (lags, leads):
        # "feasible period" is defined by the class's own LAGS / LEADS: they are the longest lag and lead written in the script
        return [('lags-leads:' + fk, [lags, leads], [int(Model.LAGS), int(Model.LEADS)], 'the class declares other lag / lead lengths than the longest written in the script')], 'accepted'
    L = lags + leads + 2
    ref = p.ref_eqs()
    wrote = False
    span = range(2000, 2000 + L) if p.stratum == 'SV' else range(L)
    label_pos = {2001: 1} if p.stratum == 'SV' else None
    for t in range(lags, L - leads):
        a = symrec.run_model(Model, span, t)
        b = symrec.run_ref(ref, list(Model.NAMES), L, t, label_pos)
        if a != b:
            first_a = next((x for x in a if x not in b), a[:1])
            first_b = next((x for x in b if x not in a), b[:1])
            out.append(('semantics:' + fk, _short(first_b), _short(first_a), 'one evaluation pass differs from the equations as written (t=%d)' % t))
            break
        wrote = wrote or any(w for _, w in a if isinstance(w, tuple) and w and w[0] != 'EXC')
        if any(n in ('t', 'self', 'np', '__debug__') or keyword.iskeyword(n) for n in names) or "self['" in script:
            c = None  # the equation text 't[t]' / 'self[t]' cannot be bound by the harness: only the code is judged
        else:
            try:
                c = equation_paths(symbols, list(Model.NAMES), L, t)
            except SyntaxError as e:
                out.append(('equation-text:unparsable:' + fk, 'an expression', [s.equation for s in symbols if s.equation][:2],
                            'the normalised equation text is not a Python statement although the generated code is (%s)' % e.msg))
                break
        if c is not None and c != a:
            out.append(('equation-text:' + fk, _short(a[:1]), _short(c[:1]), 'the normalised equation text denotes a different expression than the generated code (t=%d)' % t))
            break
    if not out:
        # comments are part of the syntax: the same script with a comment on every line (one with an unbalanced bracket, '=' and a term),
        # fenced statements wrapped in an indented block that carries comments too - and the class built without type hints:
        # the same variables, the same lag / lead lengths, the same pass
        twin = _comment_twin(script) if '#' not in script else script
        try:
            Twin = fsic.build_model(fsic.parse_model(twin), with_type_hints=False)
            t = lags
            a0 = symrec.run_model(Model, span, t)
            a1 = symrec.run_model(Twin, span, t)
            if list(Twin.NAMES) != list(Model.NAMES) or (int(Twin.LAGS), int(Twin.LEADS)) != (int(Model.LAGS), int(Model.LEADS)) or a0 != a1:
                out.append(('twin:' + fk, [list(Model.NAMES), int(Model.LAGS), int(Model.LEADS), _short(a0[:1])], [list(Twin.NAMES), int(Twin.LAGS), int(Twin.LEADS), _short(a1[:1])],
                            'the same script with comments, built without type hints, is another model: %r' % twin[:120]))
        except Exception as e:
            out.append(('twin:rejected:%s:%s' % (type(e).__name__, fk), 'accepted as without comments', repr(e)[:160], 'the same script with comments (built without type hints) is rejected: %r' % twin[:120]))
    if not out:
        t = lags
        for vec in (0, 1, 2, 3):
            d = numeric_compare(p, Model, list(Model.NAMES), L, t, vec, span, label_pos)
            if d is not None:
                out.append(('numeric:' + fk, d[1], d[2], 'bit-exact numeric cross-check differs (%s)' % d[0]))
                break
    return out, 'accepted' if wrote else 'accepted-no-write'


def _comment_twin(script):
    lines, fenced = [], False
    for line in script.split('\n'):
        if line.startswith('```'):
            fenced = not fenced
            lines.append(line)
        elif fenced:
            if not lines[-1].startswith('if True:'):
                lines.append('if True:  # a) always, see (3.7')
            lines.append('    ' + line + '  # b) Zq = Hq[-3]')
        else:
            lines.append(line + '  # was: Wq[-4] * {pq}  # a) households, see (3.7: Zq = Hq[-3] + <zq>')   # (two hashes: the comment starts at the first)
    return '\n'.join(lines)


def _spelling_twin(p, err):
    """A program spelled with redundant brackets / blanks is rejected: a violation if the same program in Python's own
    normal spelling is accepted (only the spelling differs)."""
    if p.stratum != 'SL':
        return []
    try:
        fsic.build_model(fsic.parse_model(p.normal_script()))
    except Exception:
        return []
    return [('spelling:rejected:' + err, 'accepted like %r' % p.normal_script(), err, 'a respelling of an accepted equation is rejected')]


def _short(x):
    s = repr(x)
    return s if len(s) < 700 else s[:700] + '...'


def run_block(block, tier, seed):
    acc = Acc()
    gen = dict(strata(tier))[block['stratum']]
    seen = set()
    for i, p in enumerate(gen()):
        if i % block['nb'] != block['b']:
            continue
        script = p.script()
        if script in seen:
            continue
        seen.add(script)
        acc.evaluations += 1
        case = {'script': script, 'stratum': p.stratum}
        try:
            with guard(20):
                v, outcome = check_program(p)
        except CaseTimeout:
            acc.violation('timeout', case, 'termination', 'timeout')
            continue
        except OverflowError:
            acc.n('path_cap_hit')
            continue
        acc.outcome(outcome)
        acc.n('programs:' + p.stratum.split('-')[0])
        if outcome == 'accepted':
            acc.nontrivial += 1
        for key, exp, obs, what in v:
            acc.violation(key, case, exp, obs, what)
        if i == block['b']:
            acc.sample(case, limit=1)
    return acc


def find_program(script, tier='thorough'):
    for name, gen in strata(tier):
        for p in gen():
            if p.script() == script:
                return p
    return None


def run_one(case):
    p = find_program(case['script'])
    if p is None:
        raise ValueError('script not produced by the enumerator: %r' % case['script'])
    return check_program(p)[0]


def finalize(acc, tier, seed):
    return {'bound': {'S3_nodes': 5 if tier == 'quick' else 6, 'S4_rhs_options': 8 if tier == 'quick' else 12}}
