# -*- coding: utf-8 -*-
"""C09 - container series keep their length and dtype under every assignment history.

Deciding step: explicit-state breadth-first search over operation histories on real objects
(VectorContainer, a parser-built BaseModel, a BaseLinker). A state is the canonical observation of the
object; every enabled operation of the alphabet is applied to a fresh replay of the history reaching the
state; the invariant is evaluated in every state, the step oracle (must-raise / unchanged-on-raise /
reference values) on every transition. Violating states are reported once and not expanded.
"""
import hashlib
import re
import itertools

import numpy as np

import fsic
from fsic.core import BaseLinker, VectorContainer

from ..core import runner
from ..core.observe import observe, diff_obs
from ..core.runner import Acc, guard, CaseTimeout, robust

ID = 'C09'
LEVEL = 'model_checking'
TECHNIQUE = 'explicit-state BFS over operation histories on real containers/models/linkers with canonical-observation state matching; invariant on every state, reference dict on every transition'
RULE = ('BFS to depth 2 (quick) / 3 (thorough) over ~400 operations (9 operation kinds x names {existing float/int/str/bool, unknown, near-miss, new} x '
        '27 operand shapes) on 3 object kinds; states deduplicated by canonical observation; traces = transitions whose stored result was compared '
        'with the reference dict; plus, under strict=True, every edit-distance-1 near-miss of every variable, every name resolvable on the class and every private slot name (hint compared with a difflib reference); non-trivial = transition that changes the observation or raises'
        " Label slices whose bound is a falsy label (0, '', 0.0) inside the span: 4 spans x 2 objects x 25 bound pairs, read and assignment."
        ' Sharing family: 6 assignment paths (values setter included) x {sibling array, caller array} x 5 objects; strict= given to the constructor then toggled by attribute.')
ASSUMPTIONS = [
    'operands NumPy broadcasts (length-1, (1,n), (n,1)) may succeed or raise: only the invariant is demanded',
    'bulk operations (values=, replace_values with several names) that raise are only required to keep the invariant',
    'variable names do not collide with container storage keys',
    'merging states with equal observations is sound: every operation acts on observed state only',
]

N = 3
LABELS = [10, 11, 12]

# --------------------------------------------------------------------------- operands (fresh object per use)

OPERANDS = {
    'i5': lambda: 5, 'f2.5': lambda: 2.5, 'bT': lambda: True, 'sab': lambda: 'ab', 'nan': lambda: float('nan'),
    'i0': lambda: 0, 'bF': lambda: False, 'list_zeros': lambda: [0, 0, 0],
    'list_n': lambda: [1, 2, 3], 'tuple_n': lambda: (1.5, 2.5, 3.5), 'range_n': lambda: range(N),
    'liststr': lambda: ['a', 'b', 'c'], 'liststr_wide': lambda: ['abcd', 'de', 'f'], 'listbool': lambda: [True, False, True],
    'list_none_item': lambda: [1, None, 3], 'list_bad_item': lambda: [1.5, 'oops', 2.5], 'list_nan_item': lambda: [1.0, float('nan'), 2.0],
    'range_1': lambda: range(7, 8), 'range_n+1': lambda: range(N + 1), 'tuple_1': lambda: (7,),
    'list_n+1': lambda: [1, 2, 3, 4], 'list_n-1': lambda: [1, 2], 'list_1': lambda: [7], 'list_0': lambda: [],
    'nest_nx2': lambda: [[1, 2], [3, 4], [5, 6]], 'nest_nx1': lambda: [[1], [2], [3]], 'nest_1xn': lambda: [[1, 2, 3]],
    'np_n': lambda: np.array([1., 2., 3.]), 'np_1': lambda: np.array([9.]), 'np_n+1': lambda: np.arange(4.),
    'np_n-1': lambda: np.arange(2.), 'np_1xn': lambda: np.ones((1, N)), 'np_nxn': lambda: np.ones((N, N)),
    'np_nx1': lambda: np.ones((N, 1)), 'np_int_n': lambda: np.array([4, 5, 6]),
}


def fit_class(on):
    """'clear-fit' (values predictable), 'must-raise' (cannot fit: element count not in {1, n}), or 'lenient'."""
    v = OPERANDS[on]()
    if isinstance(v, (int, float, bool, str)):
        return 'clear-fit'
    a = np.array(v) if not isinstance(v, np.ndarray) else v
    if a.ndim == 1 and a.shape[0] == N:
        return 'clear-fit'
    if isinstance(v, (list, tuple, range)) and a.ndim == 1:
        return 'must-raise'  # a Python sequence is one value per period: any other length is the wrong length (one element included)
    if a.size not in (1, N):
        return 'must-raise'
    return 'lenient'


# --------------------------------------------------------------------------- objects


def build(kind):
    if kind == 'container':
        c = VectorContainer(list(LABELS))
        c.add_variable('A', 1.0)
        c.add_variable('K', 2)
        c.add_variable('S', '-')
        c.add_variable('Q', True)
        return c
    if kind == 'model':
        return _MODEL(list(LABELS), X=[1.0, 2.0, 3.0])
    if kind == 'empty-model':
        return _EMPTY(list(LABELS))  # a model class without variables of its own (before its first add_variable)
    if kind == 'bare-linker':
        return BaseLinker({'m': _MODEL(list(LABELS))})  # submodels, but no core variables
    if kind == 'linker':
        class Lk(BaseLinker):
            ENDOGENOUS = ['A']
            EXOGENOUS = ['K']
            NAMES = ['A', 'K']
            CHECK = ['A']
        return Lk({'m': _MODEL(list(LABELS))})
    raise ValueError(kind)


_MODEL = fsic.build_model(fsic.parse_model('A = 0.5 * A[-1] + X\nK = A + 1'))
_EMPTY = fsic.build_model(fsic.parse_model(''))

VARS = {
    'container': ['A', 'K', 'S', 'Q'],
    'model': ['A', 'K', 'status', 'iterations'],
    'linker': ['A', 'K', 'status', 'iterations'],
    'empty-model': ['Znew', 'A', 'status', 'iterations'],
    'bare-linker': ['Znew', 'A', 'status', 'iterations'],
}


def ops_for(kind):
    vs = VARS[kind]
    ops = []
    for on in OPERANDS:
        for name in (vs[0], 'Znew'):
            ops.append(('add_variable', name, on))
        for name in vs:
            ops.append(('setattr', name, on))
        for name in vs[:3] + ['Unknown']:
            ops.append(('setitem', name, on))
        ops.append(('replace1', vs[0], on))
        ops.append(('values', None, on))
    for dt in ('float', 'int', 'str', 'bool'):
        ops.append(('add_variable_dtype', 'Znew', dt))
    for name in (vs[0], vs[1], vs[2], 'Unknown', 'names', 'index'):   # 'names' / 'index': list-valued attributes of the object, not variables
        for label in (11, 99):
            for on in ('i5', 'f2.5', 'sab', 'list_n'):
                ops.append(('setlabel', name, (label, on)))
        for sl in ((10, 11), (11, None), (None, 12), (12, 10), (10, 99)):
            for on in ('i5', 'f2.5', 'list_n-1', 'list_n'):
                ops.append(('setslice', name, (sl, on)))
    for on1, on2 in (('i5', 'list_n'), ('list_n', 'list_n+1'), ('nest_nx2', 'i5')):
        ops.append(('replace2', (vs[0], vs[1]), (on1, on2)))
    ops.append(('replace1', 'Unknown', 'i5'))
    for shape in ('right', 'rows+1', 'cols+1', '1d'):
        ops.append(('values_array', None, shape))
    ops += [('add_attribute', 'bar', None), ('add_attribute', vs[0], None), ('strict', None, True), ('strict', None, False),
            ('newattr', 'foo', None), ('newattr', vs[0].lower() if vs[0].lower() != vs[0] else vs[0] + 'x', None), ('setattr_existing_attr', 'bar', None)]
    return ops


def apply_op(obj, op):
    kind, name, arg = op
    if kind == 'add_variable':
        obj.add_variable(name, OPERANDS[arg]())
    elif kind == 'add_variable_dtype':
        obj.add_variable(name, {'float': 2.5, 'int': 7, 'str': 'wide1', 'bool': True}[arg], dtype={'float': float, 'int': int, 'str': str, 'bool': bool}[arg])   # a scalar of the dtype asked for
    elif kind == 'setattr':
        setattr(obj, name, OPERANDS[arg]())
    elif kind == 'setitem':
        obj[name] = OPERANDS[arg]()
    elif kind == 'setlabel':
        obj[name, arg[0]] = OPERANDS[arg[1]]()
    elif kind == 'setslice':
        obj[name, slice(arg[0][0], arg[0][1])] = OPERANDS[arg[1]]()
    elif kind == 'replace1':
        obj.replace_values(**{name: OPERANDS[arg]()})
    elif kind == 'replace2':
        obj.replace_values(**{name[0]: OPERANDS[arg[0]](), name[1]: OPERANDS[arg[1]]()})
    elif kind == 'values':
        obj.values = OPERANDS[arg]()
    elif kind == 'values_array':
        r, c = obj.values.shape
        shape = {'right': (r, c), 'rows+1': (r + 1, c), 'cols+1': (r, c + 1), '1d': (r * c,)}[arg]
        obj.values = np.arange(int(np.prod(shape)), dtype=float).reshape(shape)
    elif kind == 'add_attribute':
        obj.add_attribute(name, [1, 2])
    elif kind == 'strict':
        obj.strict = arg
    elif kind == 'newattr':
        setattr(obj, name, 1)
    elif kind == 'setattr_existing_attr':
        setattr(obj, name, 'changed')
    else:
        raise AssertionError(kind)


# --------------------------------------------------------------------------- invariant and step oracle


def series_of(obj):
    return {n: vars(obj)['_' + n] for n in obj.index}


def invariant(obj, created):
    probs = []
    n = len(obj.span)
    for name in obj.index:
        a = vars(obj).get('_' + name)
        if not isinstance(a, np.ndarray):
            probs.append((name, 'not-array', type(a).__name__))
        elif a.ndim != 1 or a.shape[0] != n:
            probs.append((name, 'shape', a.shape))
        elif name in created and a.dtype.str != created[name]:
            probs.append((name, 'dtype', a.dtype.str, created[name]))
    for name in obj.index:
        a = vars(obj).get('_' + name)
        # a variable created with the name of something that already resolves on the object (a class attribute / method, or an
        # ad hoc attribute registered earlier) is read back by key only: attribute access finds the older attribute first, by
        # construction. The reverse order is refused by the library (add_attribute with a variable's name: step oracle).
        if isinstance(a, np.ndarray) and not hasattr(type(obj), name) and name not in vars(obj).get('_attributes', ()):
            try:
                if getattr(obj, name) is not a or obj[name] is not a:
                    probs.append((name, 'shadowed', 'attribute/key read does not return the series'))
            except Exception as e:
                probs.append((name, 'unreadable', type(e).__name__))
    rows = list(obj.names) if hasattr(obj, 'names') else list(obj.index)
    try:
        v = obj.values
        if v.shape != (len(rows), n) and not (len(rows) == 0):
            probs.append(('values', 'shape', v.shape, (len(rows), n)))
        else:
            for i, name in enumerate(rows):
                a = vars(obj)['_' + name]
                if a.ndim == 1 and a.shape[0] == n and a.dtype.kind in 'fiub' and v.dtype.kind in 'fiub':
                    if not np.array_equal(v[i], a.astype(v.dtype), equal_nan=True):
                        probs.append(('values', 'row', name))
    except Exception as e:
        probs.append(('values', 'exception', type(e).__name__))
    try:
        own = len(rows) * n
        if isinstance(obj, BaseLinker):
            want = own + sum(m.size for m in obj.submodels.values())
        else:
            want = own
        if obj.size != want:
            probs.append(('size', obj.size, want))
        if obj.nbytes != sum(vars(obj)['_' + k].nbytes for k in obj.index) + (sum(m.nbytes for m in obj.submodels.values()) if isinstance(obj, BaseLinker) else 0):
            probs.append(('nbytes', obj.nbytes))
    except Exception as e:
        probs.append(('size', 'exception', type(e).__name__))
    return probs


def reference_candidates(old, value):
    """What a whole-series assignment of `value` must leave in a series created as `old` (clear-fit operands)."""
    out = []
    try:
        x = old.copy()
        x[:] = value
        out.append(x)
    except Exception:
        pass
    try:
        y = np.array(value, dtype=old.dtype)
        if y.shape == old.shape:
            out.append(y)
        elif y.ndim == 0:
            out.append(np.full(old.shape, y, dtype=old.dtype))
    except Exception:
        pass
    return out


def step_oracle(obj, op, before_series, before_obs, exc, created, nonstrict_twin_accepts=None, attribute_survives_strict=None):
    """Return list of (key, expected, observed, what)."""
    kind, name, arg = op
    out = []
    after = series_of(obj)
    index_before = list(before_series)
    strict = before_obs_strict(before_obs)

    def unchanged():
        return observe(obj) == before_obs

    single = kind in ('add_variable', 'add_variable_dtype', 'setattr', 'setitem', 'replace1', 'setlabel', 'setslice')
    if exc is not None and single and not unchanged():
        out.append(('changed-on-raise:%s' % kind, 'unchanged', diff_obs(before_obs, observe(obj)), 'a raising single-variable assignment changed the object'))
        return out
    if kind in ('setattr', 'setitem', 'replace1') and name in index_before:
        cls = fit_class(arg)
        if cls == 'must-raise' and exc is None:
            out.append(('accepted-misfit:%s:%s' % (kind, arg), 'raises', 'accepted', 'an operand that cannot fit was accepted'))
        elif cls == 'clear-fit' and exc is None:
            cands = reference_candidates(before_series[name], OPERANDS[arg]())
            ok = any(c.dtype == after[name].dtype and c.shape == after[name].shape and c.tobytes() == after[name].tobytes() for c in cands)
            if cands and not ok:
                out.append(('wrong-values:%s' % kind, [c.tolist() for c in cands][:2], after[name].tolist(), 'stored values differ from the reference'))
            for other in index_before:
                if other != name and after[other].tobytes() != before_series[other].tobytes():
                    out.append(('other-series-changed:%s' % kind, other, 'changed', 'assignment to one variable changed another'))
    if exc is not None and strict and kind in ('setattr', 'setitem', 'replace1', 'setlabel', 'setslice') and name in index_before \
            and nonstrict_twin_accepts is not None and nonstrict_twin_accepts():
        out.append(('strict:existing-update-rejected:%s' % type(exc).__name__, 'accepted as without strict', type(exc).__name__,
                    'updates of existing names must keep working under strict=True'))
    if kind in ('setitem', 'replace1', 'setlabel', 'setslice') and name not in index_before and exc is None:
        out.append(('unknown-name-accepted:%s' % kind, 'raises', 'accepted', 'item assignment to an unknown name must raise'))
    if kind in ('add_variable', 'add_variable_dtype'):
        if name in index_before and exc is None:
            out.append(('duplicate-accepted', 'raises', 'accepted', 'add_variable of an existing name must raise'))
        if name not in index_before:
            cls = fit_class(arg) if kind == 'add_variable' else 'clear-fit'
            if cls == 'must-raise' and exc is None:
                out.append(('accepted-misfit:add_variable:%s' % arg, 'raises', 'accepted', 'an operand that cannot fit was accepted'))
            if exc is not None and strict and nonstrict_twin_accepts is not None and nonstrict_twin_accepts():
                out.append(('strict:add_variable-rejected:%s' % type(exc).__name__, 'accepted as without strict', type(exc).__name__,
                            'add_variable must keep working under strict=True'))
            if exc is None and kind == 'add_variable_dtype':
                want = np.dtype({'float': float, 'int': int, 'str': str, 'bool': bool}[arg])
                if after[name].dtype.kind != want.kind:
                    out.append(('add_variable-dtype', want.str, after[name].dtype.str, 'dtype= not imposed'))
                elif after[name].tolist() != [{'float': 2.5, 'int': 7, 'str': 'wide1', 'bool': True}[arg]] * N:
                    out.append(('add_variable-dtype:values', {'float': 2.5, 'int': 7, 'str': 'wide1', 'bool': True}[arg], after[name].tolist(), 'a scalar with dtype= is not stored as given in every period'))
    if kind == 'setlabel' and name in index_before:
        label, on = arg
        if label not in LABELS:
            if exc is None or not unchanged():
                out.append(('absent-label-accepted', 'KeyError', 'accepted', 'assignment at a label outside the span'))
        elif exc is None and on != 'list_n':
            pos = LABELS.index(label)
            want = before_series[name].copy()
            try:
                want[pos] = OPERANDS[on]()
                if want.tobytes() != after[name].tobytes():
                    out.append(('wrong-values:setlabel', want.tolist(), after[name].tolist(), 'label assignment stored the wrong cells'))
            except Exception:
                pass
    if kind == 'setslice' and name in index_before and exc is None:
        (a, b), on = arg
        if (a is None or a in LABELS) and (b is None or b in LABELS):
            pa = 0 if a is None else LABELS.index(a)
            pb = N - 1 if b is None else LABELS.index(b)
            want = before_series[name].copy()
            try:
                want[pa:pb + 1] = OPERANDS[on]()
                if want.tobytes() != after[name].tobytes():
                    out.append(('wrong-values:setslice', want.tolist(), after[name].tolist(), 'label-slice assignment stored the wrong cells'))
            except Exception:
                out.append(('accepted-misfit:setslice', 'raises', 'accepted', 'slice assignment of a misfitting operand accepted'))
        else:
            out.append(('absent-label-accepted:slice', 'KeyError', 'accepted', 'slice bound outside the span accepted'))
    if kind in ('values', 'values_array') and hasattr(obj, 'names'):
        # `values` of a model / linker is the stack of its `names`: replacing it never touches the series outside that stack
        for other in index_before:
            if other not in obj.names and other in after and other in before_series and before_series[other].tobytes() != after[other].tobytes():
                out.append(('values:wrote-outside-the-stack', before_series[other].tolist(), after[other].tolist(),
                            'replacing `values` changed %r, which is not part of `values`' % other))
                break
    if kind == 'add_attribute' and name in index_before:
        if exc is None or not unchanged():
            out.append(('duplicate-accepted:add_attribute', 'raises, nothing changed', type(exc).__name__ if exc else 'accepted',
                        'add_attribute with the name of an existing variable must raise and change nothing'))
    if kind in ('newattr', 'add_attribute') and exc is None and name not in index_before and attribute_survives_strict is not None:
        problem = attribute_survives_strict()
        if problem:
            out.append(('strict:existing-attribute-update-rejected', 'accepted', problem, 'an attribute that exists must still be assignable once strict=True is set'))
    if kind == 'newattr':
        is_new = name not in before_attr_names(before_obs) and name not in index_before
        if strict and is_new:
            if not isinstance(exc, AttributeError) or not unchanged():
                out.append(('strict:new-attribute-accepted', 'AttributeError', type(exc).__name__ if exc else 'accepted', 'strict=True must block new attributes'))
            elif name.lower() in [v.lower() for v in index_before] and not re.search(r'(?<![A-Za-z0-9_])%s(?![A-Za-z0-9_])' % re.escape([v for v in index_before if v.lower() == name.lower()][0]), str(exc)):
                out.append(('strict:no-suggestion', 'message names the closest variable', str(exc), 'near-miss not reported'))
        if not strict and exc is not None:
            out.append(('nonstrict:new-attribute-rejected', 'accepted', type(exc).__name__, 'non-strict object must accept new attributes'))
    if kind in ('setattr_existing_attr',) and name in before_attr_names(before_obs) and exc is not None:
        out.append(('existing-attribute-update-rejected', 'accepted', type(exc).__name__, 'updates of existing names must keep working'))
    if kind == 'values_array' and exc is None and arg != 'right':
        out.append(('values:wrong-shape-accepted', 'raises', 'accepted', 'values replacement of the wrong shape accepted'))
    return out


def before_obs_strict(obs):
    for k, v in obs[4]:
        if k == '_strict':
            return bool(v[1])
    return False


def before_attr_names(obs):
    return [k for k, _ in obs[4]]


# --------------------------------------------------------------------------- BFS

_KINDS = ['container', 'model', 'linker', 'empty-model', 'bare-linker']
_OPS = {k: None for k in _KINDS}
_PRIOR = Acc()
_FRONT = None


def ops(kind):
    if _OPS[kind] is None:
        _OPS[kind] = ops_for(kind)
    return _OPS[kind]


def key_of(o):
    return hashlib.sha1(repr(o).encode()).hexdigest()[:20]


def replay(kind, hist):
    obj = build(kind)
    created = {n: a.dtype.str for n, a in series_of(obj).items()}
    for i in hist:
        try:
            apply_op(obj, ops(kind)[i])
        except Exception:
            pass
        for n, a in series_of(obj).items():
            if n not in created and isinstance(a, np.ndarray):
                created[n] = a.dtype.str
    return obj, created


def expand(kind, hist, acc):
    for i, op in enumerate(ops(kind)):
        case = {'kind': kind, 'history': [list(map(_j, ops(kind)[h])) for h in hist] + [list(map(_j, op))], 'hist_idx': list(hist) + [i]}
        try:
            with guard(10):
                v, okey, changed, raised = run_transition(kind, hist, i)
        except CaseTimeout:
            acc.violation('timeout', case, 'termination', 'timeout')
            continue
        except Exception as e:
            acc.violation('unexpected-exception:%s:%s' % (op[0], type(e).__name__), case, 'no exception', repr(e)[:300],
                          'observing the object after this history raised an exception')
            continue
        acc.evaluations += 1
        acc.transitions += 1
        acc.traces += 1
        acc.outcome((op[0], raised))
        if changed or raised:
            acc.nontrivial += 1
        if v:
            for key, exp, obs, what in v:
                acc.violation(key, case, exp, obs, what)
            continue  # a violating state poisons its successors: reported once, not expanded
        acc.frontier.setdefault((kind, okey), tuple(hist) + (i,))


def _j(x):
    return x if isinstance(x, (str, int, float, bool, type(None))) else repr(x)


def run_transition(kind, hist, i):
    obj, created = replay(kind, hist)
    before_obs = observe(obj)
    before_series = {n: a.copy() for n, a in series_of(obj).items()}
    op = ops(kind)[i]
    exc = None
    try:
        apply_op(obj, op)
    except Exception as e:
        exc = e
    for n, a in series_of(obj).items():
        if n not in created and isinstance(a, np.ndarray):
            created[n] = a.dtype.str if a.ndim == 1 else created.get(n, a.dtype.str)
    v = []
    for p in invariant(obj, created):
        v.append(('invariant:%s:%s' % (p[0] if p[0] in ('values', 'size', 'nbytes') else 'series', p[1]) + ':' + op[0], 'one-dimensional, one element per period, dtype as created', list(map(str, p)),
                  'container invariant broken'))
    def twin_accepts():
        twin, _ = replay(kind, hist)
        twin.strict = False
        try:
            apply_op(twin, op)
            return True
        except Exception:
            return False

    def attribute_survives_strict():
        twin, _ = replay(kind, hist)
        try:
            apply_op(twin, op)
            twin.strict = True
            setattr(twin, op[1], 'again')
            return None
        except Exception as e:
            return '%s: %s' % (type(e).__name__, str(e)[:100])

    if not v:
        v += step_oracle(obj, op, before_series, before_obs, exc, created, twin_accepts, attribute_survives_strict)
    after = observe(obj)
    return v, key_of(after), after != before_obs, type(exc).__name__ if exc else None


# --------------------------------------------------------------------------- strict=True: every name that is not a variable or an existing attribute

EXTRA_VARS = ['YD', 'Gov', 'Income_total']
EDIT_ALPHABET = 'aYdgx_1'


def edits1(word):
    out = set()
    for i in range(len(word) + 1):
        for ch in EDIT_ALPHABET:
            out.add(word[:i] + ch + word[i:])
    for i in range(len(word)):
        out.add(word[:i] + word[i + 1:])
        for ch in EDIT_ALPHABET:
            out.add(word[:i] + ch + word[i + 1:])
        if i + 1 < len(word):
            out.add(word[:i] + word[i + 1] + word[i] + word[i + 2:])
    out |= {word.lower(), word.upper(), word.swapcase(), word * 2, word[::-1]}
    return {w for w in out if re.fullmatch(r'[A-Za-z_][A-Za-z0-9_]*', w)}


def reference_hint(name, index):
    """The closest variable, from the documentation of get_closest_match: case-insensitive difflib ratio, cutoff 0.1.
    Returns (hint or None, decided): undecided when the best score is tied or sits on the cutoff."""
    import difflib
    lowered = {}
    for x in index:
        lowered.setdefault(x.lower(), []).append(x)
    scored = sorted(((difflib.SequenceMatcher(None, x, name.lower()).ratio(), x) for x in lowered), reverse=True)
    if not scored or scored[0][0] < 0.1 - 1e-9:
        return None, True
    if abs(scored[0][0] - 0.1) < 1e-9 or (len(scored) > 1 and abs(scored[0][0] - scored[1][0]) < 1e-9) or len(lowered[scored[0][1]]) != 1:
        return None, False
    return lowered[scored[0][1]][0], True


def strict_names(kind):
    obj = build(kind)
    names = set()
    for v in list(obj.index) + EXTRA_VARS:
        names |= edits1(v)
        for w in list(edits1(v))[:0]:
            names |= edits1(w)
        names.add('_' + v)          # the private slot a variable is stored in
        names.add('__' + v)
    names |= {n for n in dir(type(obj)) if not n.startswith('__')}  # methods, properties and class-level settings
    names |= {'qq', 'zzzzzzzz', 'w', 'Total', 'income', 'GOV_', 'yd2', 'dy', 'consumption', '_', '__dict__x'}
    return sorted(names)


@robust()
def run_strict_name(case):
    kind, name = case['kind'], case['name']
    obj = build(kind)
    for v in EXTRA_VARS:
        obj.add_variable(v, 0.0)
    if case.get('late_strict'):
        obj.add_attribute('note', 'x')
    obj.strict = True
    index = list(obj.index)
    attrs = list(obj.__dict__['_attributes'])
    if name in index or name in attrs:
        return []
    before = observe(obj)
    keys = sorted(obj.__dict__)
    exc = None
    try:
        setattr(obj, name, 1)
    except Exception as e:
        exc = e
    out = []
    if sorted(obj.__dict__) != keys or observe(obj) != before:
        out.append(('strict:attribute-created', 'unchanged', [sorted(set(obj.__dict__) ^ set(keys)), diff_obs(before, observe(obj))[:2]],
                    'an assignment under strict=True created an attribute or changed the object'))
    elif not isinstance(exc, AttributeError):
        out.append(('strict:not-blocked', 'AttributeError', type(exc).__name__ if exc else 'accepted', 'an assignment to a name that is neither a variable nor an existing attribute must be blocked'))
    else:
        candidates = list(obj.names) if kind != 'container' else index
        hint, decided = reference_hint(name, candidates)  # models and linkers suggest among `names` (documented default)
        # the wording of the message is free: the suggestion is whichever variable name it quotes (besides the rejected name itself)
        quoted = set(re.findall(r"['\"`]([A-Za-z_]\w*)['\"`]", str(exc))) - {name}
        named = sorted(q for q in quoted if q in candidates)
        got = named[0] if len(named) == 1 else (None if not named else named)
        if decided and got != hint:
            out.append(('strict:near-miss-hint', hint, got, 'the closest variable is not the one reported for %r' % name))
    return out


@robust()
def run_constructor_dtype(case):
    """Models and linkers built with dtype= / default_value=: every variable of `names` has that dtype and value, `values`
    has it too, and variables added later follow it."""
    kind, dt, dv = case['kind'], case['dtype'], case['default_value']
    dtype = {'int': int, 'bool': bool, 'float32': np.float32, 'float': float}[dt]
    if kind == 'model':
        obj = _MODEL(list(LABELS), dtype=dtype, default_value=dv)
    else:
        class Lk(BaseLinker):
            ENDOGENOUS = ['A']
            EXOGENOUS = ['K']
            NAMES = ['A', 'K']
            CHECK = ['A']
        obj = Lk({'m': _MODEL(list(LABELS))}, dtype=dtype, default_value=dv)
    out = []
    want = np.dtype(dtype)
    for n in obj.names:
        a = vars(obj)['_' + n]
        if a.dtype != want or a.tolist() != [want.type(dv).item()] * N:
            out.append(('constructor-dtype:%s' % kind, [want.str, want.type(dv).item()], [a.dtype.str, a.tolist()], 'variable %s of an object built with dtype=%s, default_value=%r' % (n, dt, dv)))
            return out
    if obj.values.dtype != want:
        out.append(('constructor-dtype:values:%s' % kind, want.str, obj.values.dtype.str, '`values` of an object built with dtype=%s' % dt))
    obj.add_variable('Later', dv)
    if vars(obj)['_Later'].dtype != want:
        out.append(('constructor-dtype:add_variable:%s' % kind, want.str, vars(obj)['_Later'].dtype.str, 'a variable added later does not follow the dtype the object was built with'))
    return out


@robust()
def run_strict_existing(case):
    """Under strict=True every attribute the object already has (its own bookkeeping attributes included) can still be assigned."""
    kind = case['kind']
    obj = build(kind)
    if case.get('late_strict'):
        obj.add_attribute('note', 'x')
    obj.strict = True
    out = []
    for k in sorted(vars(obj)):
        if k.startswith('_') or k in obj.index:
            continue
        before = observe(obj)
        try:
            setattr(obj, k, vars(obj)[k])
        except Exception as e:
            out.append(('strict:existing-attribute-blocked', 'accepted', [k, type(e).__name__, str(e)[:100]], 'the attribute %r exists, yet assigning it under strict=True is rejected' % k))
            break
        if observe(obj) != before:
            out.append(('strict:existing-attribute-assignment-changed-something', 'unchanged', [k] + diff_obs(before, observe(obj))[:2], 'assigning an attribute its own value changed the object'))
            break
    return out


def run_strict_toggle(case):
    """strict given to the constructor, then switched by attribute: off (new attributes are accepted), on again (they are not), as
    for an object that was made strict by attribute in the first place."""
    kind, first = case['kind'], case['first']
    span = list(LABELS)
    try:
        if kind == 'container':
            obj = VectorContainer(span, strict=first)
            obj.add_variable('A', 1.0)
        elif kind == 'model':
            obj = _MODEL(span, strict=first)
        else:
            obj = BaseLinker({'m': _MODEL(span)}, strict=first) if kind == 'linker-kw' else None
    except Exception as e:
        return [('strict-toggle:constructor:%s' % type(e).__name__, 'an object', repr(e)[:100], 'strict= refused by the constructor')]
    if obj is None:
        return []
    out = []
    flag = first
    for step, new in enumerate([not first, first, not first, True, True, False]):
        try:
            obj.strict = new
            flag = new
        except Exception as e:
            out.append(('strict-toggle:blocked', 'strict = %r accepted' % new, [step, type(e).__name__, str(e)[:100]], 'the strict flag of an object built with strict=%r cannot be switched by attribute' % first))
            break
        if bool(obj.strict) != flag:
            out.append(('strict-toggle:not-stored', flag, bool(obj.strict), 'the strict flag reads back differently'))
            break
        name = 'fresh%d' % step
        try:
            setattr(obj, name, 1)
            accepted = True
        except AttributeError:
            accepted = False
        except Exception as e:
            out.append(('strict-toggle:new-attribute:%s' % type(e).__name__, 'AttributeError or accepted', repr(e)[:100], 'unexpected exception class'))
            break
        if accepted == flag:
            out.append(('strict-toggle:new-attribute', 'refused' if flag else 'accepted', 'accepted' if accepted else 'refused', 'with strict=%r a new attribute is %s' % (flag, 'accepted' if accepted else 'refused')))
            break
        if 'A' not in obj.index:
            continue
        try:
            obj.A = 2.0 + step   # updates of existing names keep working
        except Exception as e:
            out.append(('strict-toggle:update-blocked', 'accepted', repr(e)[:100], 'an existing variable cannot be assigned'))
            break
    return out


def blocks(tier, seed):
    """Level-synchronous BFS: earlier levels are completed here (in parallel), the last level is returned as blocks."""
    global _PRIOR, _FRONT
    _PRIOR = Acc()
    depth = 2 if tier == 'quick' else 3
    seen = {}
    frontier = []
    for kind in _KINDS:
        o = build(kind)
        seen[(kind, key_of(observe(o)))] = ()
        frontier.append((kind, ()))
    for level in range(1, depth):
        _FRONT = frontier
        acc = runner.pmap_blocks(__name__, [{'kind': 'expand', 'lo': j, 'hi': j + 1} for j in range(len(frontier))], tier, seed)
        _PRIOR.merge(acc)
        new = []
        for k in sorted(acc.frontier, key=lambda k: (len(acc.frontier[k]), acc.frontier[k], k)):
            if k not in seen:
                seen[k] = acc.frontier[k]
                new.append((k[0], acc.frontier[k]))
        frontier = new
    _FRONT = frontier
    _PRIOR.frontier = {}
    _PRIOR.states = len(seen)
    step = max(1, len(frontier) // 64)
    return [{'kind': 'expand', 'lo': j, 'hi': min(j + step, len(frontier))} for j in range(0, len(frontier), step)] + [{'kind': 'strict-names', 'object': k, 'part': p, 'parts': 4} for k in _KINDS for p in range(4)] + [{'kind': 'falsy-slices'}]


FALSY_SPANS = {'int': [-1, 0, 1, 2], 'str': ['b', '', 'a', 'c'], 'float': [2.5, 0.0, -1.0, 3.0], 'mixed': ['x', 0, 7, '']}


def run_falsy_slice(case):
    """A label that is falsy (0, '', 0.0) away from the edges of the span, used as a bound of a (name, label-slice) read or assignment."""
    labels = FALSY_SPANS[case['span']]
    n = len(labels)
    a, b = case['bounds']
    out = []
    if case['kind'] == 'container':
        c = VectorContainer(list(labels))
        c.add_variable('A', [1.5, 2.5, 3.5, 4.5])
        c.add_variable('K', [1, 2, 3, 4])
    else:
        c = _MODEL(list(labels), A=[1.5, 2.5, 3.5, 4.5], K=[1.0, 2.0, 3.0, 4.0])
    pa = 0 if a is None else a
    pb = n - 1 if b is None else b
    sl = slice(None if a is None else labels[a], None if b is None else labels[b])
    for name in ('A', 'K'):
        before = c[name].copy()
        try:
            got = c[name, sl]
        except Exception as e:
            out.append(('falsy-label-slice:get:%s' % type(e).__name__, before[pa:pb + 1].tolist(), repr(e)[:100], 'a label slice with a falsy bound cannot be read'))
            continue
        if np.asarray(got).tolist() != before[pa:pb + 1].tolist():
            out.append(('falsy-label-slice:get', before[pa:pb + 1].tolist(), np.asarray(got).tolist(), 'a label slice with a falsy bound reads other cells'))
        want = before.copy()
        want[pa:pb + 1] = 9
        try:
            c[name, sl] = 9
        except Exception as e:
            out.append(('falsy-label-slice:set:%s' % type(e).__name__, want.tolist(), repr(e)[:100], 'a label slice with a falsy bound cannot be assigned'))
            continue
        after = c[name]
        if after.shape != before.shape or after.dtype != before.dtype or after.tolist() != want.tolist():
            out.append(('falsy-label-slice:set', [want.tolist(), str(before.dtype)], [after.tolist(), str(after.dtype)], 'a label-slice assignment with a falsy bound stored other cells, or changed length / dtype'))
    return out


def run_sharing(case):
    """An assignment stores values, not the operand: after a series was assigned from an array (a sibling variable's, or one the caller
    keeps), writes to either side leave the other unchanged - 'every series unchanged' but the one assigned to."""
    obj = build(case['kind'])
    n = len(obj.span)
    out = []
    try:
        obj.add_variable('N1', 0.0)
        obj.add_variable('N2', [0.5 * k for k in range(n)])
    except Exception as e:
        return [('sharing:setup:%s' % type(e).__name__, 'two float variables', repr(e)[:100], 'cannot add variables')]
    held = np.array([10.0 + k for k in range(n)])
    source = obj['N2'] if case['source'] == 'sibling' else held
    path = case['path']
    if path == 'values':
        # the whole stack replaced from a two-dimensional array of the variables' own dtype that the caller keeps (and gives to a second object)
        try:
            stack = np.array(obj.values)
        except Exception:
            return out
        if stack.dtype != float or stack.size == 0:
            return out
        kept = stack + 1.0
        twin = build(case['kind'])
        twin.add_variable('N1', 0.0)
        twin.add_variable('N2', [0.5 * k for k in range(n)])
        try:
            obj.values = kept
            twin.values = kept
        except Exception as e:
            return [('sharing:values:%s' % type(e).__name__, 'accepted', repr(e)[:100], 'a stack of the right shape and dtype is refused')]
        want = kept.copy()
        kept[0, 0] = -99.0
        if np.array(obj.values).tolist() != want.tolist():
            return [('sharing:values:caller', want[0].tolist(), np.array(obj.values)[0].tolist(), 'after `values = array` a write to the array shows in the object')]
        first = (list(getattr(obj, 'names', None) or obj.index))[0]
        obj[first, obj.span[1]] = 123.0
        if np.array(twin.values).tolist() != want.tolist() or kept[0, 1] == 123.0:
            return [('sharing:values:second-object', want[0].tolist(), np.array(twin.values)[0].tolist(), 'two objects given the same array through `values` share storage')]
        return out
    try:
        if path == 'setattr':
            obj.N1 = source
        elif path == 'setitem':
            obj['N1'] = source
        elif path == 'replace_values':
            obj.replace_values(N1=source)
        elif path == 'label-slice':
            obj['N1', obj.span[0]:obj.span[-1]] = source
        elif path == 'add_variable':
            obj.add_variable('N3', source)
        else:
            raise ValueError(path)
    except Exception as e:
        return [('sharing:%s:%s' % (path, type(e).__name__), 'accepted', repr(e)[:100], 'a right-length float array is refused')]
    target = 'N3' if path == 'add_variable' else 'N1'
    want = np.array(source, dtype=float).copy()
    # write to the source in place, then through the object
    source[0] = -99.0
    if case['source'] == 'sibling':
        obj['N2', obj.span[-1]] = -77.0
    if obj[target].tolist() != want.tolist():
        out.append(('sharing:%s:%s' % (path, case['source']), want.tolist(), obj[target].tolist(), 'a series assigned from an array changes when the array is written to afterwards'))
        return out
    before_src = np.array(source).copy()
    obj[target, obj.span[1]] = 123.0
    if np.array(source).tolist() != before_src.tolist():
        out.append(('sharing:%s:%s:back' % (path, case['source']), before_src.tolist(), np.array(source).tolist(), 'a write to the series reaches the array it was assigned from'))
    return out


def run_block(block, tier, seed):
    acc = Acc()
    if block['kind'] == 'falsy-slices':
        for kind in ('container', 'model', 'linker-kw'):
            for first in (True, False):
                case = {'kind': kind, 'first': first, 'family': 'strict-toggle'}
                acc.evaluations += 1
                acc.nontrivial += 1
                for key, exp, obs, what in run_strict_toggle(case):
                    acc.violation(key, case, exp, obs, what)
        for kind in _KINDS:
            for source in ('sibling', 'caller'):
                for path in ('setattr', 'setitem', 'replace_values', 'label-slice', 'add_variable', 'values'):
                    case = {'kind': kind, 'source': source, 'path': path, 'family': 'sharing'}
                    acc.evaluations += 1
                    acc.nontrivial += 1
                    for key, exp, obs, what in run_sharing(case):
                        acc.violation(key, case, exp, obs, what)
        for kind in ('container', 'model'):
            for span in FALSY_SPANS:
                for a in (None, 0, 1, 2, 3):
                    for b in (None, 0, 1, 2, 3):
                        case = {'kind': kind, 'span': span, 'bounds': [a, b], 'family': 'falsy-slices'}
                        acc.evaluations += 1
                        acc.nontrivial += 1
                        for key, exp, obs, what in run_falsy_slice(case):
                            acc.violation(key, case, exp, obs, what)
        return acc
    if block['kind'] == 'strict-names':
        for i, name in enumerate(strict_names(block['object'])):
            if i % block['parts'] != block['part']:
                continue
            for late in (False, True):
                case = {'kind': block['object'], 'name': name, 'late_strict': late, 'family': 'strict-names'}
                acc.evaluations += 1
                acc.nontrivial += 1
                for key, exp, obs, what in run_strict_name(case):
                    acc.violation(key, case, exp, obs, what)
        acc.sample({'family': 'strict-names', 'kind': block['object'], 'name': 'YX'}, limit=1)
        if block['part'] == 1 and block['object'] in ('model', 'linker'):
            for dt, dv in (('int', 3), ('bool', True), ('float32', 0.5), ('float', -1.5), ('int', 0)):
                case = {'kind': block['object'], 'dtype': dt, 'default_value': dv, 'family': 'constructor-dtype'}
                acc.evaluations += 1
                acc.nontrivial += 1
                for key, exp, obs, what in run_constructor_dtype(case):
                    acc.violation(key, case, exp, obs, what)
        if block['part'] == 0:
            for late in (False, True):
                case = {'kind': block['object'], 'late_strict': late, 'family': 'strict-existing'}
                acc.evaluations += 1
                acc.nontrivial += 1
                for key, exp, obs, what in run_strict_existing(case):
                    acc.violation(key, case, exp, obs, what)
        return acc
    for kind, hist in _FRONT[block['lo']:block['hi']]:
        expand(kind, hist, acc)
    if _FRONT[block['lo']:block['hi']]:
        kind, hist = _FRONT[block['lo']]
        acc.sample({'object': kind, 'history': [list(map(_j, ops(kind)[h])) for h in hist]}, limit=2)
    return acc


def run_one(case):
    if case.get('family') == 'falsy-slices':
        return run_falsy_slice(case)
    if case.get('family') == 'sharing':
        return run_sharing(case)
    if case.get('family') == 'strict-toggle':
        return run_strict_toggle(case)
    if case.get('family') == 'strict-names':
        return run_strict_name(case)
    if case.get('family') == 'strict-existing':
        return run_strict_existing(case)
    if case.get('family') == 'constructor-dtype':
        return run_constructor_dtype(case)
    return run_transition(case['kind'], tuple(case['hist_idx'][:-1]), case['hist_idx'][-1])[0]


def finalize(acc, tier, seed):
    last_new = len([k for k in acc.frontier])
    acc.merge(_PRIOR)
    acc.states = _PRIOR.states + last_new
    return {'depth': 2 if tier == 'quick' else 3, 'operations_per_object': {k: len(ops(k)) for k in _KINDS},
            'note': 'states = distinct canonical observations reached (last level counted before dedup against earlier levels)'}
