# -*- coding: utf-8 -*-
"""C07 - the Fortran back-end computes what the Python back-end computes.

Deciding step: bounded exhaustive enumeration of programs in the expression subset common to both back-ends
(literal-free family, literal-bearing family, long equations, many variables); each is compiled with gfortran and
driven through fsic's own FortranEngine wrapper (ctypes adaptor mirroring the f2py signature) and compared with the
pure-Python class built from the same symbols: `evaluate` at EVERY period position (both spellings, infeasible ones
included), `solve_t` and `solve` over an option lattice on two data vectors; plus the variable numbering of the
Fortran module against the Python class's variable order.
"""
import itertools
import re

import numpy as np

import fsic
from fsic.exceptions import ParserError, SymbolError

from .. import programs, fortran_bridge
from ..core.runner import Acc, guard, CaseTimeout, robust

ID = 'C07'
LEVEL = 'exploration'
TECHNIQUE = 'bounded exhaustive enumeration of common-subset programs, each compiled (gfortran) and run differentially against the Python class over all period positions and an option lattice'
RULE = ('programs: every binary operator and max/min over ordered pairs of 6 literal-free leaves, unary/nested contexts, 2-3 equation systems, long equations (30/60 terms), a 40-variable '
        'system, and literal-bearing contexts; per compiled model: evaluate at every t in [-L-1, L], solve_t over t x min_iter x max_iter (incl. 0) x offset x failures x 2 data vectors, '
        'solve over start/end (None, the falsy label 0, an inner label)/offset/failures/max_iter. non-trivial = comparison in which both back-ends ran (or both rejected) for a compiled model'
        " Names beginning with an underscore; the instance's reassigned check list (3 lists x 3 entry points) on every program with two or more endogenous variables."
        ' Instance-check-list cases are skipped when the Python run does not stay finite.')
ASSUMPTIONS = [
    'f2py is replaced by a ctypes adaptor with the same call signature (integer vectors passed as given)',
    'values compared to 1e-12 relative (libm vs NumPy exp/log/pow); iteration counts not compared on knife-edge convergence (last step within 4x of tol)',
    'non-finite flows are outside the property',
]

LEAVES = [('X', 'v', 0), ('Z', 'v', -1), ('a', 'p', 0), ('e', 'e', 1), ('W', 'v', 2), ('Y', 'v', -1)]
BIN = ['+', '-', '*', '/', '**']
UNARY = ['-PH0', 'exp(PH0)', 'log(PH0)', 'abs(PH0)', '-PH0 ** PH1', '(-PH0) ** 2', 'exp(-PH0)', 'abs(-PH0)']
NESTED = ['PH0 * PH1 + PH2 / PH3', 'PH0 - (PH1 - PH2)', 'PH0 / PH1 / PH2', 'PH0 ** PH1 ** PH2', 'exp(PH0 * log(PH1))', 'PH0 - -PH1',
          'abs(PH0 - PH1) + max(PH0, min(PH1, PH2))', 'max(PH0, PH1, PH2)', '(PH0 + PH1) * (PH2 - PH3)', 'PH0 / (PH1 * PH2)', 'log(exp(PH0) + PH1)', '-(PH0 + PH1)']
LITERAL = ['PH0 * 0.1', '1 / 2 * PH0', 'max(0, PH0)', '2 * PH0 - 1', 'PH0 ** 2', 'PH0 ** 0.5', '10 * PH0 + 0.25', 'PH0 / 3', '0.7 * PH0 + 0.3 * PH1', 'min(PH0, 1.5)', 'PH0 + 1e-3', '3 * 0.1 * PH0']
SYSTEMS = [
    'Y = {a} * Y + X',
    'Y = {a} * Y[-1] + X\nZ = Y * {b} - <e>',
    'C = {a} * (Y - T) + {b} * H[-1]\nT = {th} * Y\nY = C + G\nH = H[-1] + Y - T - C',
    'Y = -X ** {p} + abs(Z[-1]) - exp({a} * X) / (log(W) + max(X, Z) * min(X, W[1]))',
    'A = B[1] * {a}\nB = A[-2] + X',
    'Y = X - Z - W\nQ = X / Z / W\nR = X ** {p} ** {a}\nS = -X - -Z',
    'A = {a} * B + X\nB = {a} * A + Z',
    'A = {a} * A + {b} * B[-1]\nB = {a} * B + {b} * A\nD = A + B[1]',
]


def term(spec):
    n, k, o = spec
    return programs.Term(n, k, o, 'plain' if o < 0 else ('plus' if o > 0 else 'none'))


def program_scripts(tier):
    out = []

    def add(script, family):
        out.append((script, family))

    for op in BIN:
        for l0, l1 in itertools.product(LEAVES, repeat=2):
            add(programs.Program([programs.Eq(programs.Term('Y'), 'PH0 %s PH1' % op, [term(l0), term(l1)])]).script(), 'binary')
    for fn in ('max', 'min'):
        for l0, l1 in itertools.product(LEAVES[:4], repeat=2):
            add(programs.Program([programs.Eq(programs.Term('Y'), '%s(PH0, PH1)' % fn, [term(l0), term(l1)])]).script(), 'call')
    for ctx in UNARY:
        k = len(set(re.findall(r'PH\d', ctx)))
        for ls in itertools.product(LEAVES[:4], repeat=k):
            add(programs.Program([programs.Eq(programs.Term('Y'), ctx, [term(l) for l in ls])]).script(), 'unary')
    for ctx in NESTED:
        k = len(set(re.findall(r'PH\d', ctx)))
        for rot in range(3 if tier == 'quick' else 6):
            ls = [LEAVES[(rot + i) % len(LEAVES)] for i in range(k)]
            add(programs.Program([programs.Eq(programs.Term('Y'), ctx, [term(l) for l in ls])]).script(), 'nested')
    for s in SYSTEMS:
        add(s, 'system')
    # names that are suffixes / prefixes of one another, same and different offsets (textual substitution hazards)
    add('Y = C + PC + PCC * GY[-1] + Y[-1]', 'names')
    add('GY = Y + {aa} * {a} + <ee> - <e>\nY = GY[-1] + YY + Y_[1]', 'names')
    add('C = PC[-1] + C[-1] + CC[-1] + t + index + solved_values', 'names')
    add('X1 = X11 + X1[-1] + X[1] + {X_1}', 'names')
    # names that begin with an underscore (variable, parameter, error, left-hand side) and a one-character name
    add('Y = _T[-1] + {_a} * X + <_e> + _\n_Z = Y[-1] + _T + _Z[-1] * {_a}', 'names')
    # offsets of ten and more; left-hand sides with a lead or a lag (the assignment lands in another period than t)
    add('Y = S[-12] + 0.5 * Y[-10] + X[11]', 'offsets')
    add('Y = 0.5 * X + <e>[-2] + <u>[1]', 'offsets')           # the deepest lag / furthest lead sits on error terms only
    add('Y = {a}[-3] * X + Z[2]', 'offsets')                     # ... on a parameter
    add('K[1] = 0.875 * K + I\nI = 0.25 * K[-1] + X', 'lhs-offsets')
    add('Y[-1] = 0.5 * X + Z[1]\nW[2] = Y[-1] + W', 'lhs-offsets')
    for n in (30, 60):
        add('Y = ' + ' + '.join('{p%d} * X%d[-1]' % (i, i) for i in range(n)), 'long')
        add('Y = ' + ' * '.join('(X%d + {q%d})' % (i, i) for i in range(n)), 'long')
    add('\n'.join('V%d = {c} * V%d + U%d[-1]' % (i, i, i) for i in range(40)), 'many-variables')
    add('\n'.join('V%d = {c} * V%d + 0.5 * V%d' % (i, i, (i + 1) % 20) for i in range(20)), 'many-variables-literal')
    for ctx in LITERAL:
        k = len(set(re.findall(r'PH\d', ctx)))
        for rot in range(2):
            ls = [LEAVES[(rot + i) % 4] for i in range(k)]
            add(programs.Program([programs.Eq(programs.Term('Y'), ctx, [term(l) for l in ls])]).script(), 'literal')
    if tier != 'quick':
        for p in programs.s4(None):
            if p.consistent() and 'if' not in p.script():
                add(p.script(), 'S4')
    seen, uniq = set(), []
    for s, f in out:
        if s not in seen:
            seen.add(s)
            uniq.append((s, f))
    return uniq


_SCRIPTS = None


def scripts(tier):
    global _SCRIPTS
    if _SCRIPTS is None:
        _SCRIPTS = program_scripts(tier)
    return _SCRIPTS


def literal_patch(src):
    """Repair-and-retest: rewrite numeric literals in the equation section to double-precision reals."""
    head, sep, rest = src.partition('  ! ---------------------------------------------------------------------------\n')
    body, sep2, tail = rest.partition('  ! ---------------------------------------------------------------------------\n')
    lines = []
    for line in body.split('\n'):
        if line.lstrip().startswith('!'):
            lines.append(line)
            continue
        parts = re.split(r'(solved_values\([^)]*\))', line)
        for i in range(0, len(parts), 2):
            parts[i] = re.sub(r'(?<![\w.])(\d+\.\d*(?:[eE][-+]?\d+)?|\.\d+(?:[eE][-+]?\d+)?|\d+[eE][-+]?\d+|\d+)(?![\w.])',
                              lambda m: ('%r' % float(m.group(1))).replace('e', 'd') + ('' if 'e' in ('%r' % float(m.group(1))) else 'd0'), parts[i])
        lines.append(''.join(parts))
    return head + sep + '\n'.join(lines) + sep2 + tail


def fill(m, vec, L):
    rng = np.random.RandomState(100 + vec)
    lo, hi = (0.2, 0.9) if vec == 0 else (1.1, 2.5)
    for name in m.names:
        m[name] = rng.uniform(lo, hi, L)
    for name in type(m).PARAMETERS:
        m[name] = 0.3 if vec == 0 else 0.45
    return m


def outcome(fn, *a, **k):
    try:
        with np.errstate(all='ignore'):
            r = fn(*a, **k)
        if isinstance(r, tuple):
            return ('value', (list(r[0]), [int(x) for x in r[1]], [bool(x) for x in r[2]]))
        return ('value', None if r is None else bool(r))
    except Exception as e:
        return (type(e).__name__, None)


def close(a, b, rtol):
    return np.allclose(a, b, rtol=rtol, atol=1e-300, equal_nan=True)


def compare_models(Py, F, tier, acc=None):
    """Return list of (kind, detail) disagreements between the two back-ends (first per kind)."""
    out = []
    L = Py.LAGS + Py.LEADS + 4
    kinds = set()

    def note(kind, detail):
        if kind not in kinds:
            kinds.add(kind)
            out.append((kind, detail))

    n = 0
    # the two classes are built with the same constructor arguments: a non-default default_value, some series passed by keyword
    first = (list(Py.NAMES) or [None])[0]
    for kwargs in (dict(default_value=8.0), dict(default_value=-0.5, **({first: 2.0} if first else {})), dict(dtype=float, default_value=1.5)):
        a, b = Py(range(L), **kwargs), F(range(L), **kwargs)
        n += 1
        if not close(a.values, b.values, 0) or a.status.tolist() != b.status.tolist():
            note('construct', dict(kwargs={k: str(v) for k, v in kwargs.items()}, python=a.values[:, 0].tolist()[:4], fortran=b.values[:, 0].tolist()[:4]))
        t = Py.LAGS
        ra, rb = outcome(a.solve_t, t, max_iter=5, failures='ignore'), outcome(b.solve_t, t, max_iter=5, failures='ignore')
        if ra != rb or not close(a.values, b.values, 1e-10):
            note('solve_t:constructed-with-arguments', dict(kwargs={k: str(v) for k, v in kwargs.items()}, python=ra, fortran=rb))
    # the convergence-check list of the *instance* (reassigned after construction: one variable only, reversed) is what both engines watch
    endo = list(Py.ENDOGENOUS)
    if len(endo) >= 2:
        for chk in ([endo[0]], [endo[-1]], list(reversed(endo))):
            for entry in ('solve_t', 'solve_period', 'solve'):
                a, b = fill(Py(range(L)), 1, L), fill(F(range(L)), 1, L)
                a.check, b.check = list(chk), list(chk)
                t = Py.LAGS
                kw = dict(max_iter=60, tol=1e-9, failures='ignore')
                if entry == 'solve':
                    ra, rb = outcome(a.solve, **kw), outcome(b.solve, **kw)
                else:
                    ra, rb = outcome(getattr(a, entry), t, **kw), outcome(getattr(b, entry), t, **kw)
                n += 1
                if ra[0] == 'SolutionError' or not np.all(np.isfinite(a.values)):
                    continue  # the PYTHON run does not stay finite (a diverging system): outside the property, as in the exact-tolerance family
                if ra[0] != rb[0] or a.status.tolist() != b.status.tolist() or not close(a.values, b.values, 1e-8) or int(np.max(np.abs(a.iterations - b.iterations))) > 1:
                    note('%s:instance-check-list' % entry, dict(check=chk, python=ra, fortran=rb, status=[a.status.tolist(), b.status.tolist()], iterations=[a.iterations.tolist(), b.iterations.tolist()]))
    # evaluate at every position, both spellings, infeasible ones included
    for t in range(-L - 1, L + 1):
        a, b = fill(Py(range(L)), 0, L), fill(F(range(L)), 0, L)
        ra, rb = outcome(a._evaluate, t), outcome(b._evaluate, t)
        n += 1
        pos = t + L if t < 0 else t
        feasible = -L <= t < L and Py.LAGS <= pos < L - Py.LEADS
        if feasible:
            if ra != rb or ra[0] != 'value' or not close(a.values, b.values, 1e-13):
                note('evaluate', dict(t=t, python=ra[0], fortran=rb[0], maxdiff=float(np.nanmax(np.abs(a.values - b.values)))))
        elif rb[0] == 'value':
            note('evaluate-infeasible-accepted', dict(t=t, python=ra[0], fortran=rb[0]))
    ts = sorted(set(range(Py.LAGS, L - Py.LEADS)) | {-1 - Py.LEADS, -2 - Py.LEADS, 0, -1})
    # exact arithmetic: with all data dyadic the per-pass change hits tol exactly (strict '<' in both back-ends)
    for tol, max_iter, failures in itertools.product((0.0, 0.125, 0.25, 0.5, 1.0, 4.0), (3, 10, 100), ('raise', 'ignore')):
        a, b = Py(range(L)), F(range(L))
        for m in (a, b):
            for name in m.names:
                m[name] = 1.0
            for name in Py.PARAMETERS:
                m[name] = 0.5
            for name in Py.ENDOGENOUS:
                m[name] = 0.0
        t = Py.LAGS
        kw = dict(max_iter=max_iter, tol=tol, failures=failures)
        ra, rb = outcome(a.solve_t, t, **kw), outcome(b.solve_t, t, **kw)
        n += 1
        if ra[0] == 'SolutionError' or not np.all(np.isfinite(a.values)):
            continue  # the all-zero start divides by zero in the PYTHON run: values do not stay finite, outside the property
        if ra != rb or a.status.tolist() != b.status.tolist() or a.iterations.tolist() != b.iterations.tolist() or not close(a.values, b.values, 1e-13):
            note('solve_t:exact-tolerance', dict(kw=kw, python=ra, fortran=rb, iterations=[a.iterations.tolist(), b.iterations.tolist()]))
    for vec in (0, 1):
        for t, min_iter, max_iter, offset, failures in itertools.product(ts, (0, 2), (0, 1, 4, 60), (0, -1, 1, 5), ('raise', 'ignore')):
            a, b = fill(Py(range(L)), vec, L), fill(F(range(L)), vec, L)
            kw = dict(min_iter=min_iter, max_iter=max_iter, tol=1e-9, offset=offset, failures=failures)
            ra, rb = outcome(a.solve_t, t, **kw), outcome(b.solve_t, t, **kw)
            n += 1
            same_state = a.status.tolist() == b.status.tolist() and close(a.values, b.values, 1e-10)
            same_iter = a.iterations.tolist() == b.iterations.tolist()
            if ra != rb or not same_state:
                note('solve_t' + (':max_iter=0' if max_iter == 0 else ''), dict(t=t, kw=kw, python=ra, fortran=rb, status=[a.status.tolist(), b.status.tolist()],
                                                                          iterations=[a.iterations.tolist(), b.iterations.tolist()],
                                                                          maxdiff=float(np.nanmax(np.abs(a.values - b.values)))))
            elif not same_iter and not knife_edge(Py, vec, L, t, kw, a):
                note('solve_t:iterations', dict(t=t, kw=kw, iterations=[a.iterations.tolist(), b.iterations.tolist()]))
        # the span holds the label 0 (a falsy label) at position 2: an explicit start=0 / end=0 is a request like any other
        lab = list(range(-2, L - 2))
        # (the first and the last label: infeasible whenever the model has a lag / a lead - both back-ends must refuse alike)
        for start, end, offset, failures, max_iter in itertools.product((None, 0, lab[Py.LAGS + 1], lab[0]), (None, 0, lab[L - 2 - Py.LEADS], lab[-1]), (0, -1), ('raise', 'ignore'), (3, 60)):
            a, b = fill(Py(lab), vec, L), fill(F(lab), vec, L)
            kw = dict(start=start, end=end, max_iter=max_iter, tol=1e-9, offset=offset, failures=failures)
            ra, rb = outcome(a.solve, **kw), outcome(b.solve, **kw)
            n += 1
            if ra != rb or a.status.tolist() != b.status.tolist() or not close(a.values, b.values, 1e-10):
                note('solve', dict(kw=kw, python=ra, fortran=rb, status=[a.status.tolist(), b.status.tolist()], iterations=[a.iterations.tolist(), b.iterations.tolist()]))
            elif a.iterations.tolist() != b.iterations.tolist():
                if not any(knife_edge(Py, vec, L, int(t), dict(kw, start=None, end=None), a) for t in range(L) if a.iterations[t] != b.iterations[t]):
                    note('solve:iterations', dict(kw=kw, iterations=[a.iterations.tolist(), b.iterations.tolist()]))
    return out, n


def knife_edge(Py, vec, L, t, kw, solved):
    """True if the Python run's last step is within a factor 4 of tol (a 1-ulp difference may move the crossing)."""
    k = int(solved.iterations[t])
    if k < 1:
        return False
    kw = {x: v for x, v in kw.items() if x in ('min_iter', 'max_iter', 'tol', 'offset', 'failures')}
    prev = fill(Py(range(L)), vec, L)
    try:
        with np.errstate(all='ignore'):
            prev.solve_t(t, **dict(kw, max_iter=max(k - 1, 0), min_iter=0, failures='ignore'))
    except Exception:
        return False
    step = max(abs(float(solved[n][t]) - float(prev[n][t])) for n in Py.ENDOGENOUS) if Py.ENDOGENOUS else 0.0
    tol = kw.get('tol', 1e-10)
    return tol / 4 <= step <= tol * 4


def structure_ok(src, Py):
    names = list(Py.NAMES)
    out = []
    for label, lst in (('endogenous', Py.ENDOGENOUS), ('exogenous', Py.EXOGENOUS), ('parameters', Py.PARAMETERS), ('errors', Py.ERRORS)):
        m = re.search(r'integer, dimension\((\d+)\) :: %s(?:\s*=\s*\(/(.*?)/\))?' % label, src.replace('&\n&', ' ').replace('  &\n', ' '), re.S)
        if not m:
            continue  # declaration style not recognised: nothing to compare (numbering is still exercised through solve_t/solve)
        got = [int(x) for x in re.findall(r'\d+', m.group(2) or '')]
        want = [names.index(x) + 1 for x in lst]
        if got != want or int(m.group(1)) != len(want):
            out.append((label, dict(want=want, got=got)))
    m = re.search(r'integer :: lags = (\d+), leads = (\d+)', src)
    if m and (int(m.group(1)), int(m.group(2))) != (Py.LAGS, Py.LEADS):
        out.append(('lags-leads', m.groups()))
    return out


@robust(1, 0)
def run_case(case, workdir=None, tier='quick'):
    own = workdir is None
    if own:
        workdir = fortran_bridge.Workdir('c07-replay')
    try:
        script, family = case['script'], case['family']
        try:
            symbols = fsic.parse_model(script)
        except (ParserError, SymbolError):
            return [], 0
        Py, F, src, err = fortran_bridge.build(symbols, workdir)
        out = []
        if family in ('system', 'names'):
            # build options: the Fortran module must declare the same lag/lead lengths as the Python class for every option set
            from fsic.fortran import build_fortran_definition
            for lags, leads, min_lags, min_leads in itertools.product((None, 0, 3), (None, 1, 3), (0, 2), (0, 2)):
                kw = dict(lags=lags, leads=leads, min_lags=min_lags, min_leads=min_leads)
                PyK = fsic.build_model(symbols, **kw)
                srcK = build_fortran_definition(symbols, **kw)
                badK = structure_ok(srcK, PyK)
                if badK:
                    out.append(('structure:options', 'same lag/lead lengths and numbering as the Python class', [kw, badK],
                                'Fortran module and Python class disagree under build options'))
                    break
        has_literal = family.startswith('literal') or family.endswith('literal')
        if F is None:
            # does not compile: attribute to literal kinds only if the literal rewrite repairs it
            Py2, F2, src2, err2 = fortran_bridge.build(symbols, workdir, patch=literal_patch)
            if F2 is not None and src2 != src:
                return [('fortran-literal-kind:compile', 'compiles', err.strip().splitlines()[-3:], 'generated Fortran does not compile (default-kind literal): %r' % script)], 1
            return [('compile-error:%s' % family, 'compiles', err.strip().splitlines()[-4:], 'generated Fortran does not compile: %r' % script)], 1
        bad = structure_ok(src, Py)
        if bad:
            out.append(('structure', 'numbering == Python variable order', bad, 'variable numbering of the Fortran module differs from the Python class'))
        diffs, n = compare_models(Py, F, tier)
        if diffs:
            still = None
            if re.search(r'(?<![\w\[.])\d', script.split('=', 1)[1]) or has_literal:
                Py2, F2, src2, err2 = fortran_bridge.build(symbols, workdir, patch=literal_patch)
                if F2 is not None and src2 != src:
                    diffs2, _ = compare_models(Py, F2, tier)
                    still = {k for k, _ in diffs2}
            for kind, detail in diffs:
                if still is not None and kind not in still:  # the disagreement disappears once literals are double-precision reals
                    out.append(('fortran-literal-kind:%s' % kind.split(':')[0], 'same as Python', detail, 'numeric literal is not a double-precision real in Fortran: %r' % script))
                else:
                    out.append(('%s:%s' % (kind, 'one-check-variable' if len(Py.ENDOGENOUS) == 1 else 'general'), 'same as Python', detail,
                                'Fortran and Python back-ends disagree: %r' % script))
        return out, n
    finally:
        if own:
            workdir.cleanup()


def blocks(tier, seed):
    nb = 64
    return [{'b': b, 'nb': nb} for b in range(nb)]


def run_block(block, tier, seed):
    acc = Acc()
    workdir = fortran_bridge.Workdir('c07')
    try:
        for i, (script, family) in enumerate(scripts(tier)):
            if i % block['nb'] != block['b']:
                continue
            case = {'script': script, 'family': family}
            try:
                with guard(300):
                    v, n = run_case(case, workdir, tier)
            except CaseTimeout:
                acc.violation('timeout', case, 'termination', 'timeout')
                continue
            acc.evaluations += max(n, 1)
            acc.nontrivial += n
            acc.n('models:' + family)
            acc.outcome(family)
            for key, exp, obs, what in v:
                acc.violation(key, case, exp, obs, what)
            if i == block['b']:
                acc.sample(case, limit=1)
    finally:
        workdir.cleanup()
    return acc


def run_one(case):
    return run_case(case)[0]


def finalize(acc, tier, seed):
    return {'models': len(scripts(tier))}
