# -*- coding: utf-8 -*-
"""C13 - the parser is total, fails only with its own errors, and has no side effects.

Deciding step: exhaustive enumeration of (a) ALL strings up to a length bound over the 25 characters that drive
the parser's regexes and counters, (b) all token sequences up to a length bound over a 32-token alphabet,
(c) every single and double mutation of seed scripts; each input is parsed under an alarm with an execution
canary (profile hook + tripwire `self`), accepted inputs are built and instantiated, and every statement of the
reference split must contribute exactly one equation or verbatim block.
"""
import ast
import builtins
import itertools
import keyword
import re
import sys
import warnings

import numpy as np

import fsic
import fsic.parser
from fsic.exceptions import ParserError, SymbolError

from ..core.runner import Acc, guard, CaseTimeout

ID = 'C13'
LEVEL = 'exploration'
TECHNIQUE = 'exhaustive enumeration of all strings / token sequences up to a length bound and all 1-2 step mutations of seed scripts; per-input alarm, execution canary, build+instantiate, statement accounting'
RULE = ('(a) all strings of length <= 4 (quick) / <= 5 (thorough) over 25 characters; (b) all sequences of <= 3 (quick) / <= 4 (thorough) tokens over 32 tokens; '
        '(c) all single mutations (quick) / single and double mutations (thorough) of 23 seed scripts (token deletion, duplication, adjacent swap, bracket insertion); '
        '(d) all sequences of <= 6 (quick) / <= 7 (thorough) tokens over the 9-token alphabet {X, exp, =, (, ), 1, space, [-1], status} (names in several roles). '
        '(e) every name a model instance, its class or Python itself already uses (dir(instance), instance __dict__ keys with and without the leading underscore, keywords, builtins) '
        'in 7 roles (right-hand side, left-hand side, parameter, error, lagged, both sides, fenced); (f) fenced and inline verbatim statements of every Python statement kind over the names of '
        "_evaluate()'s own arguments, each with and without trailing blanks; "
        'non-trivial = input that is not rejected by the very first equation regex test, i.e. reaches term parsing, or is accepted; distinct by input text'
        ' A parse result edited by the caller must not come back from the next parse of the same text.'
        ' 49 index texts x 5 templates; one name in two roles: 8 role spellings x 8 x 5 names, in one and in two statements.')
ASSUMPTIONS = [
    'reference statement split: physical lines joined while parentheses or a code fence are open; blank and comment-only lines dropped',
    'an accepted equation whose generated code is a bare expression without any assignment or call is counted as a discarded statement; inputs with quote characters are not judged on this (text inside a Python string literal is not the parser\'s to translate)',
]

ALPHA = ['X', 'a', '1', '_', ' ', '\n', '=', '+', '-', '*', '/', '.', ',', '(', ')', '[', ']', '{', '}', '<', '>', '`', '#', "'", 'é']
TOKENS = ['X', 'Y', '=', '{a}', '{', '}', '<e>', '<', '>', '[-1]', '[', ']', '(', ')', '+', '*', '/', '1', '0', '.5', ' ', '\n', '`', '```', '#',
          'exp', 'if', 'else', "'", ',', 'é', 'print']
SEEDS = [
    'Y = C + I + G',
    'C = {alpha_1} * YD + {alpha_2} * H[-1]',
    'Y = (X +\n     Z[-1])',
    'Y = exp(X[-1]) * {a} + <e> if Z > 0 else W[2]',
    'A = max(B, 0)\nB = A[-1] + 1',
    '```\nself._Y[t] = 1.0\n```\nZ = Y',
    'E = `self._A[t]` + F[1]  # note',
    "Y = X['b'] + np.log(Z)",
    '(Y =\n   X * 2)',
    'Y = print(X)',
    'Y = 10.0 ** X / (Z - 1)',
    'Y = X if not Z else -W',
    "Y = Y[-1] * (1 + {g})\nI = 100 * Y / Y['b']",
    "A = B['b'] + B[-2]\nC = B[1] / B[`0`]",
    'f = f(X)',
    'max = max(A, B[-1])',
    '`self._Y[t] = self._Y[t] + 1`\nY = X\n`self._Y[t] = self._Y[t] + 1`',
    '(\n```\nself._Y[t] = 1.0\n```\n)',
    'Y = (X +\n```\nZ\n```\n)',
    'status = X\nY = iterations[-1]',
    'a_very_long_variable_name_for_disposable_income = another_quite_long_variable_name_for_spending[-1] + {a_parameter_with_a_long_descriptive_name}',
    'Y = ' + ' + '.join('quite_a_long_name_for_variable_number_%d_in_this_equation' % i for i in range(6)),
    '```\nself._Z[t] = 0.0\n```\n```\nself._Z[t] = 0.0\n```\nZ = Z + X',
]
SMALL_TOKENS = ['X', 'exp', '=', '(', ')', '1', ' ', '[-1]', 'status']

OWN = (ParserError, SymbolError, IndentationError)


class _Sink:
    def __init__(self):
        self.n = 0

    def write(self, s):
        self.n += len(s)

    def flush(self):
        pass


class Tripwire:
    hits = 0

    def __getattr__(self, name):
        Tripwire.hits += 1
        raise NameError("name 'self' is not defined")

    def __getitem__(self, k):
        Tripwire.hits += 1
        raise NameError("name 'self' is not defined")


_EXEC_HITS = []


def _prof(frame, event, arg):
    if event == 'call':
        code = frame.f_code
        if code.co_filename == '<string>' and code.co_name in _PHASE[0]:
            _EXEC_HITS.append(code.co_name)


_PHASE = [('<module>',)]


def ref_statements(s):
    out, buf, depth, fence = [], [], 0, False
    for line in s.splitlines():
        h = line.find('#')
        if h != -1:
            line = line[:h].rstrip()
        buf.append(line)
        if line.startswith('```'):
            if len(buf) == 1:
                fence = True
                continue
            fence = False
        depth += line.count('(') - line.count(')')
        if depth == 0 and not fence:
            st = '\n'.join(buf)
            if st.strip():
                out.append(st)
            buf = []
    if buf and '\n'.join(buf).strip():
        out.append('\n'.join(buf))
    return out


def equations_of(symbols):
    return [s.equation for s in symbols if s.equation is not None or s.type.name == 'VERBATIM']


def judge(s, sink):
    """Returns (label, violations)."""
    v = []
    Tripwire.hits = 0
    del _EXEC_HITS[:]
    printed = sink.n
    g_before = set(vars(fsic.parser))
    m_before = _module_state()
    w_before = list(warnings.filters)
    e_before = np.geterr()
    fsic.parser.__dict__['self'] = Tripwire()
    _PHASE[0] = ('<module>',)
    label = None
    symbols = None
    try:
        with guard(2):
            sys.setprofile(_prof)
            try:
                symbols = fsic.parse_model(s)
                label = 'accepted'
            except OWN as e:
                label = 'own:' + type(e).__name__
            except CaseTimeout:
                raise
            except Exception as e:
                label = 'foreign:' + type(e).__name__
                v.append(('foreign-exception:%s' % type(e).__name__, 'ParserError/SymbolError/IndentationError or a symbol list', repr(e)[:200],
                          'parse_model raised an exception that is not one of its own'))
            finally:
                sys.setprofile(None)
    except CaseTimeout:
        sys.setprofile(None)
        fsic.parser.__dict__.pop('self', None)
        return 'timeout', [('nontermination', 'terminates', 'no result within 2 s', 'parse_model does not terminate')]
    finally:
        fsic.parser.__dict__.pop('self', None)
    if _EXEC_HITS or Tripwire.hits:
        v.append(('statement-executed', 'no statement of the script is executed while parsing', {'frames': len(_EXEC_HITS), 'self-derefs': Tripwire.hits},
                  'parse_model executed code of the script'))
    if sink.n != printed:
        v.append(('side-effect:stdout', 'nothing printed', sink.n - printed, 'parsing wrote to stdout'))
    if list(warnings.filters) != w_before:
        v.append(('side-effect:warnings-filters', 'process-wide warning filters unchanged', [str(f)[:60] for f in warnings.filters[:2]], 'parsing changed the process-wide warnings filters'))
        warnings.filters[:] = w_before
    if np.geterr() != e_before:
        v.append(('side-effect:numpy-errstate', e_before, np.geterr(), 'parsing changed the NumPy error state'))
        np.seterr(**e_before)
    if set(vars(fsic.parser)) - g_before:
        v.append(('side-effect:globals', [], sorted(set(vars(fsic.parser)) - g_before), 'parsing left names in the parser module'))
    if _module_state() != m_before:
        v.append(('side-effect:module-state', m_before, _module_state(), 'parsing changed a module-level table of the parser'))
        _restore_module_state()
    if symbols is None:
        return label, v
    if not isinstance(symbols, list):
        v.append(('not-a-list', 'list', type(symbols).__name__, 'parse_model returned something else than a list'))
        return label, v
    # parsing is a function of its input: a second parse of the same text gives the same symbols (no state is kept between calls)
    try:
        again = fsic.parse_model(s)
        if again != symbols:
            v.append(('second-parse-differs', [tuple(x) for x in symbols][:3], [tuple(x) for x in again][:3], 'parsing the same text twice gives different results'))
        else:
            snapshot = list(symbols)
            again.append('edited by the caller')
            del again[:1]
            third = fsic.parse_model(s)
            aliased = third != snapshot or symbols != snapshot or third is again or again is symbols
            # whatever was aliased: undo the edit in every list that may be shared, and judge the rest on the original result
            for shared in (again, third, symbols):
                try:
                    shared[:] = snapshot
                except Exception:
                    pass
            symbols = list(snapshot)
            if aliased:
                v.append(('parse-result-aliased', [tuple(x) for x in symbols][:2], [tuple(x) if isinstance(x, tuple) else x for x in third][:2], 'a parse result edited by its caller came back from a later parse of the same text'))
    except Exception as e:
        v.append(('second-parse-raises:%s' % type(e).__name__, 'same result', repr(e)[:160], 'parsing the same text a second time raises'))
    # build + instantiate
    del _EXEC_HITS[:]
    _PHASE[0] = ('_evaluate', 'solve_t_before', 'solve_t_after')
    try:
        with guard(5):
            sys.setprofile(_prof)
            try:
                Model = fsic.build_model(symbols)
                Model(range(3))
                want_endo = [x.name for x in symbols if x.type.name == 'ENDOGENOUS']
                if list(Model.ENDOGENOUS) != want_endo or Model.CODE != fsic.build_model_definition(symbols):
                    v.append(('build-wrong-class', want_endo, list(Model.ENDOGENOUS), 'build_model returned a class that is not the class of these symbols'))
            finally:
                sys.setprofile(None)
    except CaseTimeout:
        v.append(('build:timeout', 'builds', 'timeout', 'build_model does not terminate'))
    except Exception as e:
        v.append(('build-failed:%s' % type(e).__name__, 'build_model succeeds and the class instantiates', repr(e)[:200],
                  'an accepted script cannot be built or instantiated'))
    if _EXEC_HITS:
        v.append(('statement-executed:build', 'no model code runs while building/instantiating', _EXEC_HITS[:3], 'building executed model code'))
    # every equation / verbatim block of the symbol list reaches the built model exactly once
    try:
        carriers = [x for x in symbols if x.type.name in ('ENDOGENOUS', 'VERBATIM') and x.equation is not None and x.code is not None]
        text = fsic.build_model_definition(symbols, converter=lambda x: '#<<C13-MARK>>\n' + x.code)
        if text.count('#<<C13-MARK>>') != len(carriers):
            v.append(('statement-dropped:build', len(carriers), text.count('#<<C13-MARK>>'),
                      'a statement of the script does not contribute exactly one equation or verbatim block to the built model'))
    except Exception as e:
        v.append(('build-definition-failed:%s' % type(e).__name__, 'builds', repr(e)[:200], 'build_model_definition failed on an accepted script'))
    # an equation is an assignment to its own left-hand side: anything else means the statement was not translated but discarded
    for x in symbols:
        if x.type.name == 'ENDOGENOUS' and x.code is not None and "'" not in s and '"' not in s:
            why = _no_effect(x)
            if why:
                v.append(('statement-discarded:' + why, 'an assignment (code with an effect) for ' + x.name, x.code[:120],
                          'an accepted equation is not translated to an assignment of its left-hand side'))
                break
    if set(vars(fsic.parser)) - g_before:
        v.append(('side-effect:globals:build', [], sorted(set(vars(fsic.parser)) - g_before), 'building left names in the parser module'))
        for k in set(vars(fsic.parser)) - g_before:
            del vars(fsic.parser)[k]
    if _module_state() != m_before:
        v.append(('side-effect:module-state:build', m_before, _module_state(), 'building changed a module-level table of the parser'))
        _restore_module_state()
    if sink.n != printed:
        v.append(('side-effect:stdout:build', 'nothing printed', sink.n - printed, 'building wrote to stdout'))
    # statement accounting
    whole = equations_of(symbols)
    alone = []
    for st in ref_statements(s):
        try:
            r = fsic.parse_model(st)
        except Exception:
            continue
        eqs = equations_of(r)
        if len(eqs) != 1:
            several_lhs = len(re.findall(r'[A-Za-z_][A-Za-z0-9_]*', st.split('=', 1)[0])) >= 2
            v.append(('statement-dropped' if not eqs else ('statement-doubled:several-lhs-terms' if several_lhs else 'statement-doubled'),
                      'exactly one equation or verbatim block', {'statement': st, 'contributes': len(eqs)},
                      'a non-blank, non-comment statement does not contribute exactly one equation'))
            break
        alone += eqs
    else:
        if sorted(set(whole), key=repr) != sorted(set(alone), key=repr):
            v.append(('accounting-mismatch', sorted(set(alone), key=repr)[:4], sorted(set(whole), key=repr)[:4], 'equations of the script differ from those of its statements'))
    return label, v


_MUTABLE_GLOBALS = {k: v for k, v in vars(fsic.parser).items() if isinstance(v, (dict, list, set)) and not k.startswith('__')}
_MUTABLE_ORIG = {k: (dict(v) if isinstance(v, dict) else type(v)(v)) for k, v in _MUTABLE_GLOBALS.items()}


def _module_state():
    """Contents of every module-level mutable table of fsic.parser (e.g. the function-name replacement table)."""
    return {k: repr(sorted(v.items()) if isinstance(v, dict) else sorted(v, key=repr)) for k, v in _MUTABLE_GLOBALS.items()}


def _restore_module_state():
    for k, v in _MUTABLE_GLOBALS.items():
        v.clear()
        if isinstance(v, dict):
            v.update(_MUTABLE_ORIG[k])
        elif isinstance(v, list):
            v.extend(_MUTABLE_ORIG[k])
        else:
            v.update(_MUTABLE_ORIG[k])


def _no_effect(x):
    """The generated code of an accepted equation is a bare expression that assigns nothing and calls nothing: running it does
    nothing, i.e. the statement was discarded. (Inputs with quote characters are not judged: inside a Python string literal
    the text is not the parser's to translate.)"""
    try:
        body = ast.parse(x.code).body
    except SyntaxError:
        return None  # judged by the build step
    if len(body) != 1 or not isinstance(body[0], ast.Expr):
        return None
    for sub in ast.walk(body[0]):
        if isinstance(sub, (ast.Call, ast.Yield, ast.YieldFrom, ast.Await, ast.NamedExpr)):
            return None
    return 'no-effect'


def _reserved_universe():
    Model = fsic.build_model(fsic.parse_model('Y = X'))
    m = Model(range(3))
    names = set(dir(m)) | set(m.__dict__) | set(keyword.kwlist) | set(dir(builtins)) | {'t', 'self', 'np', 'kwargs', 'errors', 'iteration', 'catch_first_error'}
    names |= {n[1:] for n in names if n.startswith('_') and len(n) > 1}
    names |= {n.lower() for n in names} | {n.upper() for n in names if n.islower() and len(n) < 12}
    return sorted(n for n in names if re.fullmatch(r'[A-Za-z_][A-Za-z0-9_]*', n))


NAME_ROLES = ['X = %s', '%s = X', 'X = {%s}', 'X = <%s>', 'X = %s[-1]', '%s = %s[-1] + X', '```\n%s = 0\n```\nX = 1']
ARGS = ['t', 'self', 'kwargs', 'errors', 'iteration', 'catch_first_error', 'X', 'np']
STATEMENT_KINDS = [
    'global %s', 'nonlocal %s', 'del %s', 'return', 'return %s', 'yield', 'yield %s', 'await %s', 'import os', 'import os as %s', 'from os import *', 'from os import path as %s',
    'from __future__ import annotations', 'pass', 'break', 'continue', 'raise', 'raise %s', 'assert %s', '%s: int', '%s: int = 0', '%s = 0', '%s += 1', '(%s := 1)', '%s = lambda: 0',
    'def %s():\n    pass', 'class %s:\n    pass', 'with %s:\n    pass', 'try:\n    pass\nexcept %s:\n    pass', 'for %s in []:\n    pass', 'while False:\n    pass',
    'async def %s():\n    pass', 'if %s:\n    pass', 'if %s:\n    pass\nelse:\n    pass', '*%s, = []', '%s, _ = 0, 0', 'print(%s)', '%s', "'''\n%s\n'''", 'self._X[t] = %s', 'self._X[t] = 1',
    'global %s\nself._X[t] = 1', 'self._X[t] = 1\nglobal %s', 'X = 1', 'X[t] = 1',
]
TRAILERS = ['', ' ', '  ', '\t', ' # note', '\n', ' \n ']


INDEX_TEXTS = ['inf', '-inf', 'nan', '1e999', '-1e999', '1e0', '1.0', '-1.5', '0x1', '1_0', '\u0661', '\u00b2', '+ 1', '- 1', '--1', '1 1', '', ' ', 't', 't-1', 't+1', "'a'", '"a"', '`a`', "'",
               'None', 'True', '1j', '9' * 30, '-' + '9' * 30, '1e3', '007', '-0', '+0', '0.0', '1e-1', '[1]', '1]', '(1)', '1,2', ':', '1:2', 'X', 'X[-1]', '{a}', '<e>', '#', '=', '==1']
INDEX_TEMPLATES = ['Y = X[%s]', 'Y[%s] = X', 'Y = {a}[%s] + <e>[%s]', 'Y = exp(X[%s]) + X[-1]', 'Y = (X[%s] +\n     Z)']
# one name in two roles, in two statements (either order): variable, lagged variable, parameter, error, called function, left-hand side
ROLE_FORMS = ['%s', '%s[-1]', '{%s}', '<%s>', '%s(X)', '%s (X)', 'np.%s(X)', '%s.f(X)']
ROLE_NAMES = ['g', 'exp', 'np', 'if', 'X']


def index_inputs():
    for tpl in INDEX_TEMPLATES:
        for text in INDEX_TEXTS:
            yield tpl.replace('%s', text)


def role_pair_inputs():
    for name in ROLE_NAMES:
        for f1 in ROLE_FORMS:
            for f2 in ROLE_FORMS:
                yield 'Y = 2 * %s\nZ = %s + 1' % (f1 % name, f2 % name)
                yield 'Y = %s + %s' % (f1 % name, f2 % name)
            yield '%s = 1\nZ = %s' % (name, f1 % name)
            yield 'Z = %s\n%s = 1' % (f1 % name, name)


def verbatim_inputs():
    seen = set()
    for kind in STATEMENT_KINDS:
        for a in (ARGS if '%s' in kind else ['']):
            body = kind.replace('%s', a)
            forms = ['```\n' + body + '\n```']
            if '\n' not in body:
                forms.append('`' + body + '`')
            for f in forms:
                for tr in TRAILERS:
                    for rest in ('', '\nX = 1', '\nY = exp(X) + %s' % (a or 'X')):
                        s = f + tr + rest
                        if s not in seen:
                            seen.add(s)
                            yield s
            # ... and after an equation that uses the same name (statements that compile one by one need not compile together)
            s = 'Y = exp(X) + %s\n' % (a or 'X') + forms[0]
            if s not in seen:
                seen.add(s)
                yield s


# --------------------------------------------------------------------------- enumeration


def tokenize(seed):
    return re.findall(r'```|\w+|\s+|.', seed)


BRACKETS = ['(', ')', '[', ']', '{', '}', '<', '>', '`']


def single_mutations(tokens):
    n = len(tokens)
    for i in range(n):
        yield ('del', i)
    for i in range(n):
        yield ('dup', i)
    for i in range(n - 1):
        yield ('swap', i)
    for i in range(n + 1):
        for b in BRACKETS:
            yield ('ins', i, b)


def apply_mutation(tokens, m):
    t = list(tokens)
    if m[0] == 'del':
        if m[1] < len(t):
            del t[m[1]]
    elif m[0] == 'dup':
        if m[1] < len(t):
            t.insert(m[1], t[m[1]])
    elif m[0] == 'swap':
        if m[1] + 1 < len(t):
            t[m[1]], t[m[1] + 1] = t[m[1] + 1], t[m[1]]
    elif m[0] == 'ins':
        t.insert(min(m[1], len(t)), m[2])
    return t


def blocks(tier, seed):
    out = []
    maxlen = 4 if tier == 'quick' else 5
    for a in ALPHA:
        for b in (ALPHA if tier == 'thorough' else [None]):
            out.append({'kind': 'strings', 'prefix': a + (b or ''), 'maxlen': maxlen, 'short': b is None or (a == ALPHA[0] and b == ALPHA[0])})
    out[0]['with_short'] = True
    maxtok = 3 if tier == 'quick' else 4
    for a in TOKENS:
        out.append({'kind': 'tokens', 'first': a, 'max': maxtok})
    for a in SMALL_TOKENS:
        for b in SMALL_TOKENS:
            out.append({'kind': 'small-tokens', 'first': a + b, 'max': 6 if tier == 'quick' else 7})
    for r in range(len(NAME_ROLES)):
        for part in range(4):
            out.append({'kind': 'names', 'role': r, 'part': part, 'parts': 4})
    for part in range(8):
        out.append({'kind': 'verbatim-kinds', 'part': part, 'parts': 8})
    out.append({'kind': 'index-texts'})
    out.append({'kind': 'role-pairs'})
    for i in range(len(SEEDS)):
        if tier == 'quick':
            out.append({'kind': 'mutations', 'seed': i, 'double': False, 'part': 0, 'parts': 1})
        else:
            for part in range(8):
                out.append({'kind': 'mutations', 'seed': i, 'double': True, 'part': part, 'parts': 8})
    return out


def run_inputs(inputs, acc, sink, kind):
    timeouts = 0
    for s in inputs:
        if timeouts >= 20:
            acc.caps.append('block stopped after 20 inputs on which parse_model did not terminate (each costs a 2 s alarm); the violation is reported')
            break
        acc.evaluations += 1
        label, v = judge(s, sink)
        timeouts += label == 'timeout'
        acc.outcome(label)
        if label != 'own:ParserError' or len(s) == 0:
            acc.nontrivial += 1
        elif _reaches_terms(s):
            acc.nontrivial += 1
        for key, exp, obs, what in v:
            acc.violation(key, {'kind': kind, 's': s}, exp, obs, what)


_EQ = fsic.parser.equation_re


def _reaches_terms(s):
    try:
        return any(_EQ.search(st) for st in ref_statements(s))
    except Exception:
        return True


def run_block(block, tier, seed):
    acc = Acc()
    sink = _Sink()
    old = sys.stdout
    sys.stdout = sink
    try:
        if block['kind'] == 'strings':
            pre = block['prefix']

            def gen():
                if block.get('with_short'):
                    yield ''
                    if len(pre) == 2:
                        for a in ALPHA:
                            yield a
                # this block owns every string that starts with `pre` (length len(pre)..maxlen)
                for L in range(0, block['maxlen'] - len(pre) + 1):
                    for tail in itertools.product(ALPHA, repeat=L):
                        yield pre + ''.join(tail)
            run_inputs(gen(), acc, sink, 'string')
            acc.sample({'kind': 'string', 's': pre + '=X'}, limit=1)
        elif block['kind'] == 'small-tokens':
            def gen():
                for L in range(0, block['max'] - 1):
                    for tail in itertools.product(SMALL_TOKENS, repeat=L):
                        yield block['first'] + ''.join(tail)
            run_inputs(gen(), acc, sink, 'small-tokens')
            acc.sample({'kind': 'small-tokens', 's': block['first'] + '=exp(X)'}, limit=1)
        elif block['kind'] == 'names':
            role = NAME_ROLES[block['role']]
            uni = _reserved_universe()
            run_inputs((role.replace('%s', n) for i, n in enumerate(uni) if i % block['parts'] == block['part']), acc, sink, 'names')
            acc.n('names-in-universe-x-role', sum(1 for i in range(len(uni)) if i % block['parts'] == block['part']))
            acc.sample({'kind': 'names', 's': role.replace('%s', 'check')}, limit=1)
        elif block['kind'] == 'index-texts':
            run_inputs(index_inputs(), acc, sink, 'index-texts')
            acc.sample({'kind': 'index-texts', 's': 'Y = X[inf]'}, limit=1)
        elif block['kind'] == 'role-pairs':
            run_inputs(role_pair_inputs(), acc, sink, 'role-pairs')
            acc.sample({'kind': 'role-pairs', 's': 'Y = 2 * {g}\nZ = g(X) + 1'}, limit=1)
        elif block['kind'] == 'verbatim-kinds':
            run_inputs((s for i, s in enumerate(verbatim_inputs()) if i % block['parts'] == block['part']), acc, sink, 'verbatim-kinds')
            acc.sample({'kind': 'verbatim-kinds', 's': '```\nglobal t\n```'}, limit=1)
        elif block['kind'] == 'tokens':
            def gen():
                for L in range(0, block['max']):
                    for tail in itertools.product(TOKENS, repeat=L):
                        yield block['first'] + ''.join(tail)
            run_inputs(gen(), acc, sink, 'tokens')
            acc.sample({'kind': 'tokens', 's': block['first'] + '=X'}, limit=1)
        else:
            toks = tokenize(SEEDS[block['seed']])
            singles = list(single_mutations(toks))

            def gen():
                seen = set()
                if block['part'] == 0:
                    yield SEEDS[block['seed']]
                    for m in singles:
                        s = ''.join(apply_mutation(toks, m))
                        if s not in seen:
                            seen.add(s)
                            yield s
                if block['double']:
                    for j, m1 in enumerate(singles):
                        if j % block['parts'] != block['part']:
                            continue
                        t1 = apply_mutation(toks, m1)
                        for m2 in single_mutations(t1):
                            s = ''.join(apply_mutation(t1, m2))
                            if s not in seen:
                                seen.add(s)
                                yield s
            run_inputs(gen(), acc, sink, 'mutation')
            acc.sample({'kind': 'mutation', 'seed': SEEDS[block['seed']]}, limit=1)
    finally:
        sys.stdout = old
    return acc


def run_one(case):
    sink = _Sink()
    old = sys.stdout
    sys.stdout = sink
    try:
        return judge(case['s'], sink)[1]
    finally:
        sys.stdout = old


def finalize(acc, tier, seed):
    return {'alphabet': ALPHA, 'tokens': TOKENS, 'seeds': SEEDS, 'max_string_length': 4 if tier == 'quick' else 5}
