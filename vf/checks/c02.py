# -*- coding: utf-8 -*-
"""C02 - per-period solve: status, iteration count, result flag and convergence agree.

Deciding step: TLC enumerates every reachable state of models/SolveT.tla (outcome alphabet restricted to
the finite outcomes conv/moved, N passes); every terminal state is one complete trace and is replayed on
the real `BaseModel.solve_t` through a scripted model, under every single-position concretisation deviation
(quick) / every pair (thorough). On top: every (t, offset) pair on a 5-period span, `solve_period` on label
spans, and a catalogue of parser-built linear systems x the option lattice against the reference loop.
"""
import itertools

import numpy as np
import pandas as pd

import fsic
from fsic.extensions import AliasMixin, TracerMixin

from .. import refsolve, scripted, tlc
from ..core.runner import Acc, guard, CaseTimeout, robust

ID = 'C02'
LEVEL = 'model_checking'
TECHNIQUE = 'explicit-state model checking (TLC) of the solver state machine + exhaustive replay of all model traces on BaseModel.solve_t; bounded exhaustive enumeration of (t, offset, option) lattices'
RULE = ('states/transitions: TLC over SolveT.tla (Outcomes={conv,moved}); every terminal state replayed on the real solve_t '
        'under all single (quick) / pairwise (thorough) concretisation deviations; plus all (t, offset) in [-5,4]x[-6,6], '
        'solve_period over label spans, the same traces through solve_period/solve and on classes stacking the Tracer/Alias mixins, and parser-built systems x option lattice vs reference loop. '
        'non-trivial = execution performing at least one evaluation pass or rejecting with its prescribed exception'
        ' solve_period in the offset family over NumPy-integer, NumPy-string and PeriodIndex spans; every out-of-span offset also on a period solved by an earlier call.')
ASSUMPTIONS = [
    'scripted models realise outcomes exactly (tol=0.5, steps multiples of 0.25)',
    'TLC, CPython and NumPy elementary semantics are trusted',
    'Python transcription ref_trace is cross-checked against every TLC state (model/model agreement)',
]

OUTCOMES = ['conv', 'moved']
_TRACES = None
_INFO = None


def _n(tier):
    return 3 if tier == 'quick' else 5


def load_traces(tier, outcomes, tag):
    states, info = tlc.run_tlc(_n(tier) if outcomes == OUTCOMES else (3 if tier == 'quick' else 4), outcomes, tag)
    term = [s for s in states if s['result'] != 'running']
    return states, term, info


OPT_KEYS = ('maxIter', 'minIter', 'errors', 'failures', 'cfe', 'pre', 'preHook', 'postHook')


def blocks(tier, seed):
    global _TRACES, _INFO
    states, term, info = load_traces(tier, OUTCOMES, 'c02')
    _TRACES, _INFO = term, info
    _INFO['all_states'] = len(states)
    nb = 64
    step = (len(term) + nb - 1) // nb
    out = [{'kind': 'traces', 'lo': i, 'hi': min(i + step, len(term))} for i in range(0, len(term), step)]
    out.append({'kind': 'offsets'})
    for i in range(len(CATALOGUE)):
        out.append({'kind': 'catalogue', 'i': i})
    out.append({'kind': 'period'})
    out.append({'kind': 'check-lists'})
    return out


# --------------------------------------------------------------------------- trace replay


def variants_for(hist, tier):
    """Deviation-bounded concretisations: all-zero, then each single position deviating (then pairs)."""
    base = [0] * len(hist)
    yield list(base)
    singles = []
    for i, o in enumerate(hist):
        for v in range(1, scripted.VARIANTS[o]):
            singles.append((i, v))
    for i, v in singles:
        x = list(base)
        x[i] = v
        yield x
    if tier == 'thorough':
        for (i, v), (j, w) in itertools.combinations(singles, 2):
            if i == j:
                continue
            x = list(base)
            x[i] = v
            x[j] = w
            yield x


class TracerScripted(TracerMixin, scripted.ScriptedBase, fsic.BaseModel):
    pass


class AliasScripted(AliasMixin, scripted.ScriptedBase, fsic.BaseModel):
    ALIASES = {'alpha': 'A', 'first': 'alpha'}


class AliasTracerScripted(AliasMixin, TracerMixin, scripted.ScriptedBase, fsic.BaseModel):
    ALIASES = {'alpha': 'A'}


# the same protocol holds for a model class that stacks the library's own mixins (tracing off, aliases unused)
STACKED = {'tracer': TracerScripted, 'alias': AliasScripted, 'alias+tracer': AliasTracerScripted}


def run_trace(case, cls=scripted.Scripted, extra_kwargs=None):
    """Execute one concretised trace on the real solve_t; return (expected, observed) dicts."""
    opts, hist, var = case['opts'], case['hist'], case['variants']
    if case.get('stacked'):
        cls = STACKED[case['stacked']]
    exp = refsolve.ref_trace(opts, hist + ['moved'] * 8)
    span = list(range(3))
    t = -2 if case.get('tneg') else 1
    script = list(zip(hist, var))
    hk = case.get('hook_exc', True)
    if case.get('pre_nan'):
        script = [(script[0][0], 3)] + script[1:]
    benign = 'nan-write' if case.get('pre_nan') else ('warn' if case.get('benign_warn') else False)  # hooks that only warn: no effect unless warnings are errors (errors='raise' with catch_first_error)
    m = scripted.make_scripted(span, {1: script}, hk if opts['preHook'] == 'exc' else benign, hk if opts['postHook'] == 'exc' else (benign if benign == 'warn' else False), cls=cls)
    m.A = [1.0, 2.0, 3.0]
    m.B = [-1.0, -2.0, -3.0]
    m.X = [7.0, 8.0, 9.0]
    if opts['pre'] == 'nonfinite':
        if case.get('prev', 0) == 0:
            m.A[1] = np.nan
        else:
            m.B[1] = np.inf
    before = scripted.snapshot(m)
    kw = dict(min_iter=opts['minIter'], max_iter=opts['maxIter'], tol=scripted.TOL, failures=opts['failures'],
              errors=opts['errors'], catch_first_error=opts['cfe'])
    if extra_kwargs:
        kw.update(extra_kwargs)
    if case.get('numpy_opts'):
        # options as NumPy scalars (e.g. read out of an array of settings); the tolerance also as a 0-d array
        kw.update(min_iter=np.int64(kw['min_iter']), max_iter=np.int32(kw['max_iter']), tol=np.array(kw['tol'], dtype=np.float32), catch_first_error=np.bool_(kw['catch_first_error']))
        t = np.int64(t)
    entry = case.get('entry', 'solve_t')
    if case.get('ambient'):
        kw['_ambient'] = case['ambient']
    if entry == 'solve_period':
        res, cause, _ = refsolve.call_outcome(m.solve_period, 1, **kw)
    elif entry == 'solve':
        res, cause, val = refsolve.call_outcome(m.solve, start=1, end=1, **kw)
        if res == 'value':
            res = str(bool(val[2][0]))
    else:
        res, cause, _ = refsolve.call_outcome(m.solve_t, t, **kw)
    changed = scripted.changed_cells(before, m)
    obs = {
        'result': res,
        'cause': cause,
        'status': str(m.status[1]),
        'iters': int(m.iterations[1]),
        'k': m.sc_count('eval'),
        'preRuns': m.sc_count('pre'),
        'postRuns': m.sc_count('post'),
        'stored': bool(not np.isfinite(m.A[1]) or not np.isfinite(m.B[1])) if exp['stored'] is False else None,
        'elsewhere': sorted((n, i) for n, i in changed if i != 1 or n == 'X'),
        'untouched': not changed,
    }
    want = {
        'result': exp['result'],
        'cause': exp['cause'],
        'status': exp['status'],
        'iters': exp['iters'] if exp['status'] != '-' else -1,
        'k': exp['k'],
        'preRuns': exp['preRuns'],
        'postRuns': exp['postRuns'],
        'stored': False if exp['stored'] is False else None,
        'elsewhere': [],
        'untouched': obs['untouched'] if exp['preRuns'] else True,
    }
    return want, obs, m


def trace_key(case, want, obs):
    fields = '+'.join(sorted(k for k in want if want[k] != obs[k]))
    tag = 'max_iter=0' if case['opts']['maxIter'] == 0 else 'errors=%s' % case['opts']['errors']
    return 'trace:%s:%s:%s' % (fields, tag, obs['result'])


def check_model_agreement(s, hist):
    exp = refsolve.ref_trace({k: s[k] for k in OPT_KEYS}, hist + ['moved'] * 8)
    for f in ('result', 'cause', 'status', 'iters', 'k', 'postRuns', 'stored'):
        if exp[f] != s[f]:
            raise AssertionError('model/model disagreement on %s: TLC %r vs ref %r for %r' % (f, s[f], exp[f], s))


def run_traces(block, tier, acc, cls=scripted.Scripted, extra_kwargs=None, post=None):
    for s in _TRACES[block['lo']:block['hi']]:
        opts = {k: s[k] for k in OPT_KEYS}
        hist = list(s['hist'])
        check_model_agreement(s, hist)
        acc.traces += 1
        acc.outcome((s['result'], s['status']))
        first = True
        for var in variants_for(hist, tier):
            for prev in ((0, 1) if opts['pre'] == 'nonfinite' and first else (0,)):
                for tneg in ((False, True) if first else (False,)):
                    case = {'kind': 'trace', 'opts': opts, 'hist': hist, 'variants': var, 'prev': prev, 'tneg': tneg}
                    acc.evaluations += 1
                    try:
                        with guard(5):
                            want, obs, m = run_trace(case, cls, extra_kwargs)
                    except CaseTimeout:
                        acc.violation('trace:timeout', case, 'termination', 'no result within 5 s')
                        continue
                    except Exception as e:
                        acc.violation('trace:unexpected-exception:%s' % type(e).__name__, case, 'no exception', repr(e)[:300],
                                      'replaying a model trace raised an exception this check does not expect')
                        continue
                    if obs['k'] > 0 or obs['result'] in ('ValueError', 'SolutionError'):
                        acc.nontrivial += 1
                    if want != obs:
                        acc.violation(trace_key(case, want, obs), case, want, obs,
                                      'solve_t disagrees with the documented state machine')
                    elif post is not None:
                        post(case, m, acc)
            if first:
                # the other entry points forward every option unchanged; a failing hook may raise any exception type
                extras = [dict(entry='solve_period'), dict(entry='solve')] + [dict(stacked=k) for k in STACKED] + [dict(stacked='tracer', entry='solve'), dict(numpy_opts=True), dict(numpy_opts=True, entry='solve')]
                if opts['preHook'] == 'exc' or opts['postHook'] == 'exc':
                    extras += [dict(hook_exc='SolutionError'), dict(hook_exc='NonConvergenceError'), dict(hook_exc='KeyError')]
                    if opts['errors'] == 'raise' and opts['cfe']:
                        extras += [dict(hook_exc='warn')]  # a hook that warns IS a failing hook when warnings are errors
                if hist and hist[0] == 'nans' and opts['pre'] == 'finite' and opts['preHook'] == 'ok' and opts['postHook'] == 'ok':
                    # the non-finite value of pass 1 was put there by the pre-solution hook (the starting state, read before the hook, was finite)
                    extras += [dict(pre_nan=True), dict(pre_nan=True, entry='solve')]
                if 'nanw' in hist and not (opts['errors'] == 'raise' and opts['cfe']):
                    # the caller's process turns warnings into errors (python -W error, a test runner's setting): the policy is the solver's own
                    extras += [dict(ambient='error'), dict(ambient='error', entry='solve')]
                if opts['preHook'] != 'exc' and opts['postHook'] != 'exc' and not (opts['errors'] == 'raise' and opts['cfe']):
                    extras += [dict(benign_warn=True), dict(benign_warn=True, entry='solve_period')]  # ... and changes nothing otherwise
                for extra in extras:
                    case = dict({'kind': 'trace', 'opts': opts, 'hist': hist, 'variants': var, 'prev': 0, 'tneg': False}, **extra)
                    acc.evaluations += 1
                    try:
                        with guard(5):
                            want, obs, m = run_trace(case, cls, extra_kwargs)
                    except CaseTimeout:
                        acc.violation('trace:timeout', case, 'termination', 'no result within 5 s')
                        continue
                    except Exception as e:
                        acc.violation('trace:unexpected-exception:%s' % type(e).__name__, case, 'no exception', repr(e)[:300], 'replaying a model trace raised')
                        continue
                    acc.nontrivial += 1
                    if extra.get('entry') == 'solve' and want['result'] == 'ValueError':
                        want = dict(want, untouched=True)
                    if extra.get('hook_exc') == 'warn' and want['cause'] == 'exception' and (opts['preHook'] == 'exc' or (opts['postHook'] == 'exc' and want['postRuns'] == 1)):
                        want = dict(want, cause='warning')  # the failure is the hook's own (not an exception of an evaluation pass before it)
                    if want != obs:
                        acc.violation(trace_key(case, want, obs) + ':' + (extra.get('stacked') or ('numpy-scalars' if extra.get('numpy_opts') else None) or ('benign-hook-warning' if extra.get('benign_warn') else None) or ('pre-hook-writes-nan' if extra.get('pre_nan') else None) or ('ambient-warnings-filter' if extra.get('ambient') else None) or extra.get('entry') or 'hook-' + str(extra['hook_exc'])), case, want, obs,
                                      'solve_t disagrees with the documented state machine')
            first = False
        acc.sample({'opts': opts, 'hist': hist, 'expect': {k: s[k] for k in ('result', 'status', 'iters', 'k')}}, limit=3)


# --------------------------------------------------------------------------- offsets and period spellings


@robust()
def run_offset_case(case):
    n, t, offset, route = case['n'], case['t'], case['offset'], case.get('route', 'solve_t')
    span = ['p%d' % i for i in range(n)] if route == 'solve_period' else list(range(n))
    if case.get('labels') == 'np':
        span = np.arange(2000, 2000 + n)           # a NumPy-array span: labels located by the fallback search
    elif case.get('labels') == 'np_str':
        span = np.array(['p%d' % i for i in range(n)])
    elif case.get('labels') == 'pd':
        span = pd.period_range('2000', periods=n, freq='Y')
    pos = t + n if t < 0 else t
    m = scripted.make_scripted(span, {pos: [('conv', 0), ('conv', 0)]})
    for i, name in enumerate(m.names):
        m[name] = [10.0 * (i + 1) + j for j in range(n)]
    if case.get('solved_before'):
        # the period was solved by an earlier call: a refused call leaves that result in place as well
        refsolve.call_outcome(m.solve_t, pos, tol=scripted.TOL)
        m.prepare({pos: [('conv', 0), ('conv', 0)]}, False, False)
    before = scripted.snapshot(m)
    init = {name: m[name].copy() for name in m.names}
    if case.get('numpy_args'):
        # the same request spelled with NumPy scalars (what indexing an integer array yields) is the same request
        t, offset = np.int64(t), np.int32(offset)
    if route == 'solve_period':
        label = span[pos]
        if case.get('labels') == 'np':
            label = int(label)
        elif case.get('labels') == 'np_str':
            label = str(label)
        res, cause, _ = refsolve.call_outcome(m.solve_period, label, tol=scripted.TOL, offset=offset)
    else:
        res, cause, _ = refsolve.call_outcome(m.solve_t, t, tol=scripted.TOL, offset=offset)
    out = []
    inside = 0 <= pos + offset < n
    if case.get('reject'):
        # min_iter > max_iter is rejected with ValueError before ANYTHING changes - also before the offset copy
        fresh = scripted.make_scripted(span, {pos: [('conv', 0)]})
        for i, name in enumerate(fresh.names):
            fresh[name] = [10.0 * (i + 1) + j for j in range(n)]
        snap = scripted.snapshot(fresh)
        call = fresh.solve_period if route == 'solve_period' else fresh.solve_t
        r2 = refsolve.call_outcome(call, span[pos] if route == 'solve_period' else t, tol=scripted.TOL, offset=offset, min_iter=3, max_iter=2)
        if r2[0] != 'ValueError' or scripted.changed_cells(snap, fresh):
            out.append(('offset:rejected-call-changed', {'result': 'ValueError', 'changed': []},
                        {'result': r2[0], 'changed': sorted(map(str, scripted.changed_cells(snap, fresh)))},
                        'min_iter > max_iter must be rejected before anything changes (including the offset copy)'))
        return out
    if not inside:
        if res != 'IndexError' or scripted.changed_cells(before, m):
            out.append(('offset:out-of-span', {'result': 'IndexError', 'changed': []},
                        {'result': res, 'changed': sorted(map(str, scripted.changed_cells(before, m)))},
                        'offset outside the span must raise IndexError and change nothing'))
        return out
    log = m.sc_log()
    evals = [e for e in log if e[0] == 'eval']
    want_entry = tuple(float(init[name][pos + offset]) for name in ('A', 'B', 'C')) + (float(init['X'][pos]),)
    exp = {'result': 'True', 'status': '.', 'iters': 1, 'entry': want_entry, 'passes': 1,
           'hooks': [('pre', pos), ('post', pos)]}
    obs = {'result': res, 'status': str(m.status[pos]), 'iters': int(m.iterations[pos]),
           'entry': evals[0][3] if evals else None, 'passes': len(evals),
           'hooks': [e[:2] for e in log if e[0] != 'eval']}
    if exp != obs:
        out.append(('offset:seed', exp, obs, 'offset must copy the endogenous values of t+offset into t before the first pass'))
    other = sorted((nm, i) for nm, i in scripted.changed_cells(before, m) if i != pos or nm == 'X')
    if other:
        out.append(('offset:elsewhere', [], other, 'solve_t changed cells outside period t'))
    return out


def run_offsets(acc, tier):
    n = 5
    for route in ('solve_t', 'solve_period'):
        ts = range(-n, n) if route == 'solve_t' else range(0, n)
        for t in ts:
            for offset in range(-n - 1, n + 2):
                if offset == 0:
                    continue
                case = {'kind': 'offset', 'n': n, 't': t, 'offset': offset, 'route': route}
                acc.evaluations += 1
                acc.nontrivial += 1
                for key, exp, obs, what in run_offset_case(case):
                    acc.violation(key, case, exp, obs, what)
                if not (0 <= (t + n if t < 0 else t) + offset < n):
                    case5 = dict(case, solved_before=True)
                    acc.evaluations += 1
                    acc.nontrivial += 1
                    for key, exp, obs, what in run_offset_case(case5):
                        acc.violation(key + ':solved-before', case5, exp, obs, what)
                if route == 'solve_period':
                    for labels in ('np', 'np_str', 'pd'):
                        case4 = dict(case, labels=labels)
                        acc.evaluations += 1
                        acc.nontrivial += 1
                        for key, exp, obs, what in run_offset_case(case4):
                            acc.violation(key + ':span-' + labels, case4, exp, obs, what)
                case3 = dict(case, numpy_args=True)
                acc.evaluations += 1
                acc.nontrivial += 1
                for key, exp, obs, what in run_offset_case(case3):
                    acc.violation(key + ':numpy-scalars', case3, exp, obs, what)
                case2 = dict(case, reject=True)
                acc.evaluations += 1
                acc.nontrivial += 1
                for key, exp, obs, what in run_offset_case(case2):
                    acc.violation(key, case2, exp, obs, what)
                acc.outcome(('offset', 0 <= (t % n) + offset < n))
    acc.sample({'kind': 'offset', 'n': 5, 't': -5, 'offset': 2})


# --------------------------------------------------------------------------- parser-built catalogue vs reference loop

CATALOGUE = [
    'Y = 0 * Y + X',
    'Y = 0.5 * Y + X',
    'Y = 0.9 * Y + X',
    'Y = -0.5 * Y + X',
    'Y = 1 * Y + X',
    'Y = -1 * Y + X',
    'Y = 2 * Y + X',
    'Y = 0.5 * Z + X\nZ = 0.5 * Y + 1',
    'Y = Z + X\nZ = -Y',
    'Y = 0.25 * Y[-1] + 0.5 * Z\nZ = 0.5 * Y + X[1]',
    'C = {a} * YD + {b} * H[-1]\nYD = Y - T\nY = C + G\nT = {theta} * Y\nH = H[-1] + YD - C',
    'Y = max(0.5 * Y - X, 0)',
    # models with nothing to check (no equation assigns anything: every check variable - there is none - has moved by less than tol)
    '',
    '```\nself._W[t] = self._W[t] * 0.5 + 1\n```',
    # a falling variable next to a settled one; two variables that move in opposite directions
    'Y = 0.5 * Y - X\nZ = 0 * Z + 1',
]

_CAT_CLASSES = {}


def cat_model(i):
    if i not in _CAT_CLASSES:
        _CAT_CLASSES[i] = fsic.build_model(fsic.parse_model(CATALOGUE[i]))
    return _CAT_CLASSES[i]


def catalogue_with_equations():
    """Catalogue entries that have at least one ordinary equation (C08 / C17 trace and wrap variables of the model)."""
    return [i for i in range(len(CATALOGUE)) if cat_model(i).ENDOGENOUS]


def cat_instance(i, dv):
    cls = cat_model(i)
    m = cls(range(6))
    for j, name in enumerate(m.names):
        base = [0.5, 1.0, 0.25][j % 3] if dv == 0 else [-1.0, 2.0, 0.125][j % 3]
        m[name] = [base + 0.125 * k for k in range(6)]
    for name in cls.PARAMETERS:
        m[name] = 0.25
    return m


@robust(1, False)
def run_cat_case(case):
    i, dv = case['i'], case['dv']
    kw = dict(min_iter=case['min_iter'], max_iter=case['max_iter'], tol=case['tol'], offset=case['offset'],
              failures=case['failures'], errors=case['errors'], catch_first_error=case['cfe'])
    t = case['t']
    a, b = cat_instance(i, dv), cat_instance(i, dv)
    res, cause, _ = refsolve.call_outcome(a.solve_t, t, **kw)
    ref = refsolve.ref_loop(b, t, **kw)
    if ref.ambiguous:
        return [], True
    exp = {'result': ref.result, 'cause': ref.cause}
    obs = {'result': res, 'cause': cause}
    pos = t % 6
    for name in list(b.index):
        if b[name].tobytes() != a[name].tobytes():
            exp[name] = b[name].tolist()
            obs[name] = a[name].tolist()
    if exp != obs:
        fields = '+'.join(sorted(k for k in exp if exp[k] != obs.get(k)))
        tag = 'max_iter=0' if case['max_iter'] == 0 else 'general'
        return [('catalogue:%s:%s' % (fields, tag), exp, obs, 'solve_t differs from the reference loop on a parser-built model')], False
    return [], False


def run_catalogue(i, acc, tier):
    cls = cat_model(i)
    tols = [1e-10, 1e-3, 0.0] if tier == 'quick' else [1e-10, 1e-6, 1e-3, 0.5, 0.0, 0]
    max_iters = [0, 1, 2, 5, 60] if tier == 'quick' else [0, 1, 2, 3, 5, 10, 60, 200]
    for dv in (0, 1):
        for max_iter in max_iters:
            for min_iter in sorted({0, 1, 2, max_iter, max_iter + 1}):
                for tol in tols:
                    for failures in ('raise', 'ignore'):
                        for errors in ('raise', 'ignore'):
                            for t in ((2, -3) if tier == 'quick' else (1, 2, -3, -2)):
                                for offset in (0, -1, 1):
                                    case = dict(kind='catalogue', i=i, dv=dv, min_iter=min_iter, max_iter=max_iter, tol=tol,
                                                offset=offset, failures=failures, errors=errors, cfe=True, t=t, script=CATALOGUE[i])
                                    acc.evaluations += 1
                                    try:
                                        with guard(10):
                                            v, amb = run_cat_case(case)
                                    except CaseTimeout:
                                        acc.violation('catalogue:timeout', case, 'termination', 'timeout')
                                        continue
                                    if amb:
                                        acc.n('excluded_replace_ambiguity')
                                        continue
                                    acc.nontrivial += 1
                                    for key, exp, obs, what in v:
                                        acc.violation(key, case, exp, obs, what)
    acc.sample({'kind': 'catalogue', 'script': CATALOGUE[i]}, limit=2)


@robust()
def run_checklist_case(case):
    """Convergence is judged on the INSTANCE's check list as it is when the period is solved (it may have been edited after
    construction), and pass 1 is judged against the state on entry (before the pre-solution hook)."""
    what, entry, min_iter, max_iter, failures = case['what'], case['entry'], case['min_iter'], case['max_iter'], case['failures']
    script = {'drop-B': [('moved', 3)] * 8, 'add-C': [('conv', 0)] * 8, 'empty': [('moved', 0)] * 8, 'copy-then-drop-B': [('moved', 3)] * 8,
              'hook-moves-A': [('conv', 1)] + [('conv', 0)] * 7}[what]
    m = scripted.make_scripted(list(range(3)), {1: script}, hooks_write='check' if what == 'hook-moves-A' else False)
    m.A = [1.0, 2.0, 3.0]
    m.B = [-1.0, -2.0, -3.0]
    k0 = max(1, min_iter)
    if what == 'drop-B':
        m.check.remove('B')
        want = ('.', k0)
    elif what == 'copy-then-drop-B':
        other = m.copy()
        other.check.remove('B')   # the copy's list is its own: the original still checks B, which keeps moving
        want = ('F', max_iter)
    elif what == 'add-C':
        m.check.append('C')
        want = ('F', max_iter)
    elif what == 'empty':
        del m.check[:]
        want = ('.', k0)
    else:
        want = ('.', max(2, min_iter)) if max_iter >= 2 else ('F', max_iter)
    kw = dict(min_iter=min_iter, max_iter=max_iter, tol=scripted.TOL, failures=failures)
    if entry == 'solve_t':
        r = refsolve.call_outcome(m.solve_t, 1, **kw)
    elif entry == 'solve_period':
        r = refsolve.call_outcome(m.solve_period, 1, **kw)
    else:
        r = refsolve.call_outcome(m.solve, start=1, end=1, **kw)
    got = (str(m.status[1]), int(m.iterations[1]))
    out = []
    if got != want:
        out.append(('check-list:%s' % what, want, got, 'convergence was not judged on the instance\'s check list / against the state on entry'))
    exp_res = 'True' if want[0] == '.' else ('NonConvergenceError' if failures == 'raise' else 'False')
    res = r[0] if r[0] != 'value' else str(bool(r[2][2][0]))
    if not out and res != exp_res:
        out.append(('check-list:result:%s' % what, exp_res, res, 'result / exception does not match the recorded status'))
    return out


_INT_MODEL = None


@robust()
def run_int_case(case):
    """A model built with dtype=int: moves are judged in the model's own arithmetic (a move of 1 at 2**60 is a move of 1)."""
    global _INT_MODEL
    if _INT_MODEL is None:
        _INT_MODEL = fsic.build_model(fsic.parse_model('Y = Y + X\nZ = Z'))
    start, step, tol, max_iter = case['start'], case['step'], case['tol'], case['max_iter']
    m = _INT_MODEL(range(3), dtype=np.int64)
    m.Y = start
    m.X = [0, step, 0]
    m.Z = 5
    r = refsolve.call_outcome(m.solve_t, 1, max_iter=max_iter, tol=tol, failures='ignore')
    # reference: pass k moves Y by `step`; converged at the first k >= 1 with |step| < tol
    if abs(step) < tol:
        want = ('.', 1, start + step)
    else:
        want = ('F', max_iter, start + step * max_iter)
    got = (str(m.status[1]), int(m.iterations[1]), int(m.Y[1]))
    if got != want:
        return [('int-dtype', want, got, 'an integer model moving by %d per pass from %d with tol=%r' % (step, start, tol))]
    return []


def run_ints(acc, tier):
    for start in (7, 2 ** 53 + 1, 2 ** 60 + 3, -(2 ** 60) - 3):
        for step in (0, 1, -1, 2, 1000):
            for tol in (1e-10, 1, 2, 1.5, 1001):
                for max_iter in (1, 3):
                    case = dict(kind='int-dtype', start=start, step=step, tol=tol, max_iter=max_iter)
                    acc.evaluations += 1
                    acc.nontrivial += 1
                    for key, exp, obs, w in run_int_case(case):
                        acc.violation(key, case, exp, obs, w)


@robust()
def run_alias_shadow_case(case):
    """The solver reads its check variables from the model's own storage: an alias that happens to be spelled like a check
    variable (a map the mixin accepts) does not redirect the convergence test. Differential against the same class without aliases."""
    global _SHADOW
    if '_SHADOW' not in globals() or _SHADOW is None:
        base = fsic.build_model(fsic.parse_model('Y = 0.5 * Y + G'))
        _SHADOW = (base, type('Shadowed', (AliasMixin, base), {'ALIASES': {'Y': 'G'}}))
    out = []
    res = []
    for cls in _SHADOW:
        m = cls(range(4))
        vars(m)['_G'][:] = [1.0, 2.0, 3.0, 4.0]
        r = refsolve.call_outcome(m.solve_t if case['entry'] == 'solve_t' else m.solve_period, 2, tol=case['tol'], max_iter=100)
        res.append((r[0], str(vars(m)['_status'][2]), int(vars(m)['_iterations'][2]), float(vars(m)['_Y'][2])))
    if res[0] != res[1]:
        out.append(('alias-shadows-check-variable', res[0], res[1], 'convergence is not judged on the stored check variable when an alias is spelled like it'))
    return out


_SHADOW = None


def run_checklists(acc, tier):
    for entry in ('solve_t', 'solve_period'):
        for tol in (1e-10, 1e-3, 0.5):
            case = dict(kind='alias-shadow', entry=entry, tol=tol)
            acc.evaluations += 1
            acc.nontrivial += 1
            for key, exp, obs, w in run_alias_shadow_case(case):
                acc.violation(key, case, exp, obs, w)
    for what in ('drop-B', 'add-C', 'empty', 'copy-then-drop-B', 'hook-moves-A'):
        for entry in ('solve_t', 'solve_period', 'solve'):
            for max_iter in (1, 2, 4):
                for min_iter in range(0, max_iter + 1):
                    for failures in ('raise', 'ignore'):
                        case = dict(kind='check-list', what=what, entry=entry, min_iter=min_iter, max_iter=max_iter, failures=failures)
                        acc.evaluations += 1
                        acc.nontrivial += 1
                        for key, exp, obs, w in run_checklist_case(case):
                            acc.violation(key, case, exp, obs, w)


def run_block(block, tier, seed):
    acc = Acc()
    if block['kind'] == 'check-lists':
        run_checklists(acc, tier)
        run_ints(acc, tier)
    elif block['kind'] == 'traces':
        run_traces(block, tier, acc)
    elif block['kind'] == 'offsets':
        run_offsets(acc, tier)
    elif block['kind'] == 'catalogue':
        run_catalogue(block['i'], acc, tier)
    elif block['kind'] == 'period':
        run_period(acc, tier)
    return acc


def run_period(acc, tier):
    """solve_period(label) == solve_t(position) on label spans (list of str, range with origin)."""
    for span in (['a', 'b', 'c', 'd'], list(range(2000, 2004)), ('x', 'y', 'z', 'w')):
        for pos in range(4):
            for hist in itertools.product(OUTCOMES, repeat=2):
                case = {'kind': 'period', 'span': list(span), 'pos': pos, 'hist': list(hist)}
                acc.evaluations += 1
                acc.nontrivial += 1
                for key, exp, obs, what in run_period_case(case):
                    acc.violation(key, case, exp, obs, what)


@robust()
def run_period_case(case):
    span, pos, hist = case['span'], case['pos'], case['hist']
    script = [(o, 0) for o in hist]
    a = scripted.make_scripted(list(span), {pos: script})
    b = scripted.make_scripted(list(span), {pos: script})
    kw = dict(max_iter=3, tol=scripted.TOL, failures='ignore')
    ra = refsolve.call_outcome(a.solve_period, span[pos], **kw)[:2]
    rb = refsolve.call_outcome(b.solve_t, pos, **kw)[:2]
    from ..core.observe import observe
    if ra != rb or observe(a) != observe(b):
        return [('period:differs', rb, ra, 'solve_period(label) differs from solve_t(position)')]
    return []


def run_one(case):
    kind = case['kind']
    if kind == 'trace':
        want, obs, _ = run_trace(case)
        return [] if want == obs else [(trace_key(case, want, obs), want, obs, 'solve_t disagrees with the documented state machine')]
    if kind == 'offset':
        return run_offset_case(case)
    if kind == 'catalogue':
        return run_cat_case(case)[0]
    if kind == 'period':
        return run_period_case(case)
    if kind == 'check-list':
        return run_checklist_case(case)
    if kind == 'int-dtype':
        return run_int_case(case)
    if kind == 'alias-shadow':
        return run_alias_shadow_case(case)
    raise ValueError(kind)


def finalize(acc, tier, seed):
    acc.states = _INFO['tlc_distinct_states']
    acc.transitions = _INFO['tlc_transitions']
    return dict(_INFO, bound='N=%d passes, concretisation deviations <= %d' % (_INFO['tlc_N'], 1 if tier == 'quick' else 2))
