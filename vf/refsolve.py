# -*- coding: utf-8 -*-
"""Boring reference models of the per-period solver, written from the property statements C02/C06
(not from fsic's source).

* `ref_trace(opts, hist)` - Python transcription of models/SolveT.tla: given the option set and the
  sequence of per-pass outcomes, the observables the statement prescribes. Cross-checked against every
  TLC terminal state (a disagreement between the two models is a harness error, found before it can
  become a false alarm against fsic).
* `ref_loop(model, t, ...)` - the same state machine driving a *real* model's `_evaluate`/hooks, used as
  the twin for parser-built models and for solve()/tracer differentials.
"""
import warnings

import numpy as np


def fail_result(opts):
    return 'NonConvergenceError' if opts['failures'] == 'raise' else 'False'


def ref_trace(opts, hist):
    """Expected observables. `hist` may be longer than needed; `k` says how many outcomes were consumed."""
    max_iter, min_iter = opts['maxIter'], opts['minIter']
    errors, cfe = opts['errors'], opts['cfe']
    r = dict(result='running', cause='none', status='-', iters=0, k=0, postRuns=0, preRuns=0, stored=True)

    if min_iter > max_iter:
        r['result'] = 'ValueError'
        return r
    if opts['pre'] == 'nonfinite' and errors == 'raise':
        r['result'] = 'SolutionError'
        return r
    r['preRuns'] = 1
    if opts['preHook'] == 'exc':
        r['result'], r['cause'] = 'SolutionError', 'exception'
        return r
    prev_fin = opts['pre'] == 'finite'
    k = 0
    while k < max_iter:
        o = hist[k]
        k += 1
        r['k'] = k
        if o == 'exc':
            r['result'], r['cause'] = 'SolutionError', 'exception'
            if errors == 'raise':
                r['status'], r['iters'] = 'E', k
            return r
        if o == 'nanw' and errors == 'raise' and cfe:
            r.update(result='SolutionError', cause='warning', status='E', iters=k, stored=False)
            return r
        if o in ('nanw', 'nans'):
            if not prev_fin:
                prev_fin = False
                continue
            if errors == 'raise':
                r.update(result='SolutionError', status='E', iters=k)
                return r
            if errors == 'skip':
                r.update(result='False', status='S', iters=k)
                return r
            if errors == 'ignore':
                prev_fin = False
                continue
            prev_fin = True  # replace: the local copy is zeroed
            continue
        # finite outcome
        if not prev_fin:
            prev_fin = True
            continue
        if k < min_iter:
            continue
        if o == 'conv':
            r['postRuns'] = 1
            if opts['postHook'] == 'exc':
                r['result'], r['cause'] = 'SolutionError', 'exception'
                return r
            r.update(result='True', status='.', iters=k)
            return r
    r.update(result=fail_result(opts), status='F', iters=max_iter)
    return r


# --------------------------------------------------------------------------- reference loop on a real model


class RefOutcome:
    def __init__(self):
        self.result = None  # 'True' / 'False' / exception class name
        self.cause = 'none'  # 'none' / 'warning' / 'exception'
        self.ambiguous = False  # the replace/"never judged" ambiguity was met (see DESIGN C06)
        self.passes = 0


def _finite(v):
    try:
        return bool(np.all(np.isfinite(v)))
    except TypeError:
        return True


def ref_loop(m, t, *, min_iter=0, max_iter=100, tol=1e-10, offset=0, failures='raise', errors='raise',
             catch_first_error=True, check=None, endogenous=None, kwargs=None):
    """Drive model `m` (a twin) through the statement's state machine for period position `t`,
    mutating it exactly as the statement prescribes; returns a RefOutcome."""
    kwargs = kwargs or {}
    out = RefOutcome()
    check = list(m.check) if check is None else check
    endogenous = list(m.endogenous) if endogenous is None else endogenous
    n = len(m.span)

    def chk():
        return np.array([m[name][t] for name in check])

    if min_iter > max_iter:
        out.result = 'ValueError'
        return out
    if offset:
        pos = t + n if t < 0 else t
        if not (0 <= pos + offset < n):
            out.result = 'IndexError'
            return out
        for name in endogenous:
            m[name][t] = m[name][pos + offset]
    cur = chk()
    if errors == 'raise' and not _finite(cur):
        out.result = 'SolutionError'
        return out

    def guarded(fn, **kw):
        with warnings.catch_warnings(record=True):
            warnings.simplefilter('error' if (errors == 'raise' and catch_first_error) else 'always')
            fn(t, errors=errors, catch_first_error=catch_first_error, **kw, **kwargs)

    try:
        guarded(m.solve_t_before, iteration=0)
    except Exception as e:
        out.result = 'SolutionError'
        out.cause = 'warning' if isinstance(e, Warning) else 'exception'
        return out

    status, k = 'F', 0
    prev_fin = _finite(cur)
    after_replace = False
    while k < max_iter:
        k += 1
        out.passes = k
        prev = cur
        try:
            guarded(m._evaluate, iteration=k)
        except Exception as e:
            out.result = 'SolutionError'
            out.cause = 'warning' if isinstance(e, Warning) else 'exception'
            if errors == 'raise':
                m.status[t] = 'E'
                m.iterations[t] = k
            return out
        cur = chk()
        was_after_replace, after_replace = after_replace, False
        if not prev_fin:
            prev_fin = _finite(cur)
            continue
        if not _finite(cur):
            if errors == 'raise':
                m.status[t] = 'E'
                m.iterations[t] = k
                out.result = 'SolutionError'
                return out
            if errors == 'skip':
                status = 'S'
                break
            if errors == 'ignore':
                prev_fin = False
                continue
            if errors == 'replace':
                cur = cur.copy()
                cur[~np.isfinite(cur)] = 0.0
                after_replace = True
                continue
            out.result = 'ValueError'
            return out
        if k < min_iter:
            continue
        if np.all(np.abs(cur - prev) < tol):
            if was_after_replace:
                out.ambiguous = True
            try:
                guarded(m.solve_t_after, iteration=k)
            except Exception as e:
                out.result = 'SolutionError'
                out.cause = 'warning' if isinstance(e, Warning) else 'exception'
                return out
            status = '.'
            break
    m.status[t] = status
    m.iterations[t] = k if status != 'F' else max_iter
    if status == 'F' and failures == 'raise':
        out.result = 'NonConvergenceError'
        return out
    out.result = 'True' if status == '.' else 'False'
    return out


def call_outcome(fn, *args, _ambient='ignore', **kwargs):
    """Run a solver call, return (result label, cause label, return value). `_ambient` is the warnings filter in force
    around the call (what the caller's process has set up, e.g. `python -W error`): the solver installs its own."""
    try:
        with warnings.catch_warnings():
            warnings.simplefilter(_ambient)
            r = fn(*args, **kwargs)
        return (str(r) if isinstance(r, (bool, np.bool_)) else 'value', 'none', r)
    except Exception as e:
        c = e.__cause__
        cause = 'none' if c is None else ('warning' if isinstance(c, Warning) else 'exception')
        return (type(e).__name__, cause, None)
