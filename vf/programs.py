# -*- coding: utf-8 -*-
"""E1 - program enumerator.

Programs are equations whose right-hand sides are Python expression *contexts* over placeholder names
PH0, PH1, ... (parsed and re-emitted with `ast.unparse`, so parenthesisation in the script text is Python's own)
plus a list of leaves (terms / literals) filling the placeholders. From one program the generator derives

* the script text (each placeholder replaced by the term's fsic spelling), and
* the reference semantics: the same context compiled by CPython and evaluated with each placeholder bound to the
  cell (name, pos(t)+offset) it denotes. The reference never goes through fsic's regexes.

Strata (each enumerated completely): S1 term shapes, S2 operator contexts over ordered leaf tuples,
S3 all expression shapes up to a node bound over 4 leaves, S4 systems of 2-3 equations with shared names.
"""
import ast
import itertools
import re

_PH = re.compile(r'\bPH(\d+)\b')


class Term:
    __slots__ = ('name', 'kind', 'off', 'idx_form', 'inner_space')

    def __init__(self, name, kind='v', off=0, idx_form=None, inner_space=False):
        self.name, self.kind, self.off = name, kind, off
        if idx_form is None:
            idx_form = 'none' if off == 0 else 'plain'
        self.idx_form = idx_form
        self.inner_space = inner_space

    def text(self):
        pre, post = {'v': ('', ''), 'p': ('{', '}'), 'e': ('<', '>')}[self.kind]
        if self.inner_space and self.kind != 'v':
            pre, post = pre + ' ', ' ' + post
        return pre + self.name + post + self.index_text()

    def index_text(self):
        f, o = self.idx_form, self.off
        if isinstance(o, tuple):
            return '[%s]' % o[1]
        if f == 'none':
            assert o == 0
            return ''
        if f == 'plain':
            return '[%d]' % o
        if f == 'plus':
            assert o > 0
            return '[+%d]' % o
        if f == 'spaced':
            return '[ %d ]' % o
        if f == 'lspace':
            return '[ %d]' % o
        if f == 'rspace':
            return '[%d ]' % o
        raise ValueError(f)

    def key(self):
        return (self.name, self.kind, self.off)

    def __repr__(self):
        return 'Term(%s)' % self.text()


class Lit:
    __slots__ = ('txt',)

    def __init__(self, txt):
        self.txt = txt

    def text(self):
        return self.txt

    def __repr__(self):
        return 'Lit(%s)' % self.txt


class Verb:
    """A partial verbatim fragment: Python code between backticks, inserted untouched. It creates no symbol, so every
    series it reads must also be mentioned by an ordinary term of the program."""
    __slots__ = ('code',)

    def __init__(self, code):
        self.code = code

    def text(self):
        return '`%s`' % self.code

    def __repr__(self):
        return 'Verb(%s)' % self.code


class Eq:
    """lhs: Term (kind 'v'); ctx: expression over PH0..; leaves: list of Term/Lit/Verb."""

    def __init__(self, lhs, ctx, leaves, raw=False, verbatim=None):
        # verbatim: None | 'inline' | 'fenced' - the statement is written as verbatim Python code (`...` or a fenced block) that
        # assigns `lhs` from `ctx` through the storage (self._NAME[t+k]); it creates no symbols and runs after all ordinary equations
        self.verbatim = verbatim
        self.lhs, self.leaves = lhs, list(leaves)
        self.tree = ast.parse(ctx, mode='eval')
        # raw: keep the context exactly as spelled (redundant parentheses, blanks before a call's bracket, no blanks around
        # operators); the reference still compiles the same text, so its meaning is CPython's
        self.ctx = ctx if raw else ast.unparse(self.tree)
        self.normal_ctx = ast.unparse(self.tree)

    def normal_text(self):
        return '%s = %s' % (self.lhs.text(), _PH.sub(lambda m: self.leaves[int(m.group(1))].text(), self.normal_ctx))

    def rhs_text(self):
        return _PH.sub(lambda m: self.leaves[int(m.group(1))].text(), self.ctx)

    def ref_text(self):
        """Context with literals substituted and terms left as placeholders."""
        def sub(m):
            leaf = self.leaves[int(m.group(1))]
            if isinstance(leaf, Lit):
                return leaf.txt
            if isinstance(leaf, Verb):
                return leaf.code  # inserted textually, exactly as written (no parentheses are added)
            return m.group(0)
        return _PH.sub(sub, self.ctx)

    def text(self):
        if self.verbatim:
            def cell(t):
                return 'self._%s[t%s]' % (t.name, '' if t.off == 0 else '%+d' % t.off)
            code = '%s = %s' % (cell(self.lhs), _PH.sub(lambda m: cell(self.leaves[int(m.group(1))]) if isinstance(self.leaves[int(m.group(1))], Term) else self.leaves[int(m.group(1))].text(), self.ctx))
            return '`%s`' % code if self.verbatim == 'inline' else '```\n%s\n```' % code
        return '%s = %s' % (self.lhs.text(), self.rhs_text())

    def placeholders_in_order(self):
        return [int(m.group(1)) for m in _PH.finditer(self.ctx)]

    def terms_in_text_order(self):
        out = [self.lhs]
        for i in self.placeholders_in_order():
            if isinstance(self.leaves[i], Term):
                out.append(self.leaves[i])
        return out

    def phmap(self):
        return {'PH%d' % i: (l.name, l.off) for i, l in enumerate(self.leaves) if isinstance(l, Term)}


class Program:
    def __init__(self, eqs, stratum=''):
        self.eqs = list(eqs)
        self.stratum = stratum

    def script(self):
        return '\n'.join(e.text() for e in self.eqs)

    def normal_script(self):
        return '\n'.join(e.normal_text() for e in self.eqs)

    # ---- reference facts, derived from the generator's own data (never from fsic)
    def names_in_order(self):
        seen = []
        for e in self.eqs:
            if getattr(e, 'verbatim', None):
                continue
            for t in e.terms_in_text_order():
                if t.name not in seen:
                    seen.append(t.name)
        return seen

    def lhs_names(self):
        return [e.lhs.name for e in self.eqs]

    def classes(self):
        """name -> set of kinds it is written with ('endo' for an assigned variable)."""
        out = {}
        for e in self.eqs:
            out.setdefault(e.lhs.name, set()).add('endo')
            for t in e.terms_in_text_order()[1:]:
                out.setdefault(t.name, set()).add(t.kind)
        return out

    def lags_leads(self):
        offs = [t.off for e in self.eqs if not getattr(e, 'verbatim', None) for t in e.terms_in_text_order() if isinstance(t.off, int)]
        return (max([0] + [-o for o in offs]), max([0] + offs))

    def consistent(self):
        """False if a name is used with clashing kinds, or an endogenous name is defined by two different equations."""
        for name, kinds in self.classes().items():
            k = {('v' if x == 'endo' else x) for x in kinds}
            if len(k) > 1:
                return False
        lhs = self.lhs_names()
        return len(set(lhs)) == len(lhs)

    def ordered_eqs(self):
        """Equations in symbol-list order = order of first textual appearance of their left-hand-side names."""
        order = self.names_in_order()
        normal = [e for e in self.eqs if not getattr(e, 'verbatim', None)]
        # verbatim statements follow the ordinary equations, in the order written, each one as often as it is written
        return sorted(normal, key=lambda e: order.index(e.lhs.name)) + [e for e in self.eqs if getattr(e, 'verbatim', None)]

    def ref_eqs(self):
        out = []
        for e in self.ordered_eqs():
            out.append(((e.lhs.name, e.lhs.off), compile(e.ref_text(), '<ref>', 'eval'), e.phmap()))
        return out

    def describe(self):
        return {'script': self.script(), 'stratum': self.stratum}


# --------------------------------------------------------------------------- alphabets

S1_NAMES = ['X', 'IS', 'Not', 'none', 'TRUE', 'x1', '_u', 'is_open', 'Pin', 'not_X', 't', 'exp', 'max', 'log', 'self', 'np', 'e5', 'in_', 'Ta', 'if_', 'lambda_x', 'X_1_', 'abs', '_g_', '__c_', '_', '__x__', 'x__']
S1_KINDS = [('v', False), ('p', False), ('e', False), ('p', True), ('e', True)]
S1_IDX = [(0, 'none'), (0, 'plain'), (-1, 'plain'), (-2, 'spaced'), (1, 'plus'), (1, 'plain'), (-10, 'plain'), (3, 'lspace'), (2, 'rspace')]
S1_CTX = ['PH0', '2 * PH0 - 1', '-PH0 ** 2', 'max(PH0, 0) + exp(PH0)', 'PH0 if PH0 > 0 else -PH0']


S1_KEYWORD_NAMES = ['lambda', 'is', 'in', 'if', 'not', 'type', 'match']  # legal as {parameter} / <error> names only (type/match also as variables)


def s1():
    """Every (name x kind x index form) as the sole right-hand-side term in 5 contexts, and as left-hand side."""
    for nm in S1_KEYWORD_NAMES:
        for kind, sp in S1_KINDS[1:] + ([('v', False)] if nm in ('type', 'match') else []):
            for off, form in S1_IDX[:5]:
                for ctx in S1_CTX[:2]:
                    yield Program([Eq(Term('Y'), ctx, [Term(nm, kind, off, form, sp)])], 'S1-kw')
    for nm in S1_NAMES:
        for kind, sp in S1_KINDS:
            for off, form in S1_IDX:
                term = Term(nm, kind, off, form, sp)
                for ctx in S1_CTX:
                    lhs = Term('Y' if nm != 'Y' else 'Z')
                    n = len(_PH.findall(ctx))
                    yield Program([Eq(lhs, ctx, [term])], 'S1')
                if kind == 'v':
                    yield Program([Eq(Term(nm, 'v', off, form), '2 * PH0', [Term('W', 'v', -1)])], 'S1-lhs')


SV_FRAGMENTS = [
    'self._W[t]', 'self._W[t-1]', 'self._W[t - 1]', "self['W', 2001]", 'self._W[t]  +  1', '( self._W[t] )', 'max( self._W[t],  0 )',
    "{'hi  lo': 2.0, 'hi lo': 3.0}['hi  lo']", "len('a   b')", 'self._W[t] if self._W[t-1] > 0 else -1', 'float(  self._W[t]  )', 'np.exp( self._W[t] )',
]
SV_CTX = ['PH0 + PH1', '2 * PH0 - PH1 / PH0', 'PH1 - (PH0)', 'max(PH0, PH1)']


def sv():
    """Partial verbatim fragments inside ordinary equations: every fragment x every context (W is also mentioned as an ordinary term)."""
    for frag in SV_FRAGMENTS:
        for ctx in SV_CTX:
            # the ordinary mention of W carries the lag, so that the fragment's own W[t-1] is inside the span
            yield Program([Eq(Term('Y'), ctx, [Verb(frag), Term('W', 'v', -1)])], 'SV')
            yield Program([Eq(Term('Y'), ctx + ' + PH2', [Verb(frag), Term('W', 'v', -1), Term('W')])], 'SV')
    yield Program([Eq(Term('Y'), 'PH0 * PH1', [Verb('self._W[t]'), Verb('self._W[t-1]')]), Eq(Term('Z'), 'PH0 + PH1', [Term('W', 'v', -1), Term('Y')])], 'SV')
    # two and three fragments in one statement with ordinary terms (a lag, a parameter) between them
    yield Program([Eq(Term('Y'), 'PH0 * PH1 + PH2 * PH3', [Verb('2.0'), Term('X', 'v', -1), Verb('self._W[t-1]'), Term('a', 'p')]), Eq(Term('Z'), 'PH0 + PH1', [Term('W', 'v', -1), Term('Y')])], 'SV')
    yield Program([Eq(Term('Y'), 'PH0 + PH1 - PH2 + PH3 + PH4', [Verb('1.5'), Term('W', 'v', -2), Verb('abs(-2)'), Term('e', 'e'), Verb('self._W[t]')])], 'SV')


S2_LEAVES = [
    Term('X'), Term('Z', 'v', -1), Term('a', 'p'), Term('b', 'p', -2, 'plain', True), Term('e', 'e'), Term('e2', 'e', 1, 'plus'),
    Term('is_open'), Term('not_X', 'v', 1), Term('t', 'v', -1), Term('x1'), Term('Pin', 'v', 0, 'plain'), Lit('2'), Lit('0.5'),
]
S2_BIN = ['+', '-', '*', '/', '**', '<', '<=', '>', '>=', '==', '!=']
S2_UNARY = ['-PH0', '+PH0', 'not PH0', 'exp(PH0)', 'log(PH0)', 'abs(PH0)', 'np.sqrt(PH0)', '-PH0 ** 2', '2 ** -PH0', '(-PH0) ** 2',
            'np.log(PH0)', 'max(PH0, -PH0)', 'exp(log(PH0))', 'float(PH0)',
            # namespaced functions are left untouched, also those whose last component is a replaced name
            'np.max(PH0)', 'np.min(PH0) + 1', 'np.exp(PH0)', 'np.abs(PH0)', 'np.maximum(PH0, 0.5)', 'np.emath.sqrt(PH0)',
            # ... whose components contain digits or underscores
            'np.log10(PH0)', 'np.log1p(PH0)', 'np.expm1(PH0) + 1', 'np.log2(PH0)', 'np.arctan2(PH0, 2)', 'np.float64(PH0)']
S2_TRIPLE = ['PH0 if PH1 > 0 else PH2', 'PH0 and PH1 or PH2', 'PH0 <= PH1 < PH2', 'max(PH0, PH1, PH2)', 'min(PH0, max(PH1, PH2))', 'PH0 * (PH1 + PH2)',
             'PH0 - (PH1 - PH2)', 'PH0 / PH1 / PH2', 'PH0 ** PH1 ** PH2']


def _lit(l):
    return isinstance(l, Lit)


def s2():
    lhs = Term('Y')
    for op in S2_BIN:
        for l0, l1 in itertools.product(S2_LEAVES, repeat=2):
            if _lit(l0) and _lit(l1):
                continue
            if op in ('<', '<=') and isinstance(l1, Term) and l1.kind == 'e':
                pass  # 'X < <e>' is fine: the unparser always puts a space after the operator
            yield Program([Eq(lhs, 'PH0 %s PH1' % op, [l0, l1])], 'S2-binary')
    for ctx in S2_UNARY:
        for l0 in S2_LEAVES:
            if _lit(l0):
                continue
            yield Program([Eq(lhs, ctx, [l0])], 'S2-unary')
    for fn in ('max', 'min'):
        for l0, l1 in itertools.product(S2_LEAVES, repeat=2):
            if _lit(l0) and _lit(l1):
                continue
            yield Program([Eq(lhs, '%s(PH0, PH1)' % fn, [l0, l1])], 'S2-call')
    six = [S2_LEAVES[i] for i in (0, 1, 2, 4, 6, 11)]
    for ctx in S2_TRIPLE:
        for l0, l1, l2 in itertools.product(six, repeat=3):
            if _lit(l1) or (_lit(l0) and _lit(l2)):
                continue
            yield Program([Eq(lhs, ctx, [l0, l1, l2])], 'S2-triple')


SL_CTX = [
    # a right-hand side that begins with one bracketed group and ends with another
    '(PH0 + PH1) * (PH2 + PH3)', '(PH0 + PH1) / (PH2 - PH3)', '(PH0) + (PH1)', '(PH0) * PH1 + (PH2)', '((PH0) + (PH1))', '(PH0 + PH1)', '((PH0 + PH1))',
    '(PH0 + PH1) * PH2', 'PH0 * (PH1 + PH2)', '(PH0 - PH1) - (PH2 - PH3) - (PH0)', '(-PH0) ** (PH1)', '(PH0, PH1)[0] + (PH2)', '[PH0, PH1][1] * (PH2)',
    'max(PH0, PH1) + (PH2)', '(PH0) + max(PH1, PH2)', 'exp(PH0) * (PH1)', '(PH0) if (PH1) > 0 else (PH2)',
    # doubled brackets: '((' and '))' that close different groups, and pairs that are really redundant
    '-((PH0) + (PH1))', 'PH0 / ((PH1 + PH2) * (PH3 - 2))', '((PH0) + (PH1)) * PH2', 'exp((PH0 + 1) * (PH1))', 'PH0 - ((PH1 - PH2) - (PH3))', '((PH0 + PH1)) * ((PH2))',
    'PH0 ** ((PH1) - (PH2)) ** 2', 'max((PH0 + PH1) * (PH2), (PH3))',
    # blanks between a function name and its bracket, around arguments; no blanks around operators
    'log (PH0)', 'exp  (PH0)', 'exp\t(PH0)', 'max (PH0, PH1)', 'min  (PH0, PH1)', 'abs (PH0)', 'np.sqrt (PH0)', 'float (PH0)', 'np.maximum (PH0, PH1)',
    'exp( PH0 )', 'max(PH0,PH1)', 'max( PH0 , PH1 )', 'exp (log (PH0))', 'max (PH0, min (PH1, PH2))', '2 * log (PH0) + exp (PH1)',
    'PH0*PH1', 'PH0**-PH1', 'PH0-PH1', 'PH0 +  PH1', '-(PH0)', 'PH0+PH1*PH2', 'PH0/PH1-PH2', 'PH0<PH1', 'PH0 if PH1>0 else PH2', '2*PH0', 'PH0*2', '2.*PH0', 'PH0**2',
]
SL_LEAVES = [
    [Term('X'), Term('Z', 'v', -1), Term('a', 'p'), Term('e', 'e', 1, 'plus')],
    [Term('A'), Term('B'), Term('C'), Term('D')],
    [Term('a', 'p'), Term('X', 'v', -2), Term('X'), Term('W', 'v', 1)],
    [Term('log_x'), Term('exp1', 'v', -1), Term('max_', 'p'), Term('e', 'e')],
]


def sl():
    """Spelling-sensitive programs: contexts kept exactly as written."""
    for ctx in SL_CTX:
        k = 1 + max(int(m) for m in _PH.findall(ctx))
        for leaves in SL_LEAVES:
            for rot in range(len(leaves)):
                yield Program([Eq(Term('Y'), ctx, (leaves[rot:] + leaves[:rot])[:k], raw=True)], 'SL')


def attribute_names():
    """Every identifier that a model instance, its class or Python itself already uses, with and without the leading
    underscore (a variable NAME is stored under '_NAME'), in several cases - the names a script could collide with."""
    import builtins
    import keyword
    import fsic
    Model = fsic.build_model(fsic.parse_model('Y = X'))
    m = Model(range(3))
    names = set(dir(m)) | set(m.__dict__) | set(dir(builtins)) | {'t', 'self', 'np', 'kwargs', 'errors', 'iteration', 'catch_first_error'}
    names |= {n[1:] for n in names if n.startswith('_') and len(n) > 1}
    names |= {n.lower() for n in names} | {n.upper() for n in names if n.islower() and len(n) < 12}
    return sorted(n for n in names if re.fullmatch(r'[A-Za-z_][A-Za-z0-9_]*', n) and not keyword.iskeyword(n))


def sn():
    """Single-term programs over every attribute-like name: as a right-hand-side variable (with a lag) and as the left-hand side."""
    for nm in attribute_names():
        if nm in ('Y', 'W'):
            continue
        yield Program([Eq(Term('Y'), 'PH0 + PH1', [Term(nm), Term(nm, 'v', -1)])], 'SN')
        yield Program([Eq(Term(nm), '2 * PH0', [Term('W', 'v', -1)])], 'SN')


def vs():
    """Scripts with whole verbatim statements (inline and fenced), the same statement written once, twice, three times."""
    K, X, Z, Y = Term('K'), Term('X'), Term('Z'), Term('Y')
    for form in ('inline', 'fenced'):
        double = lambda: Eq(K, 'PH0 * 2', [K], verbatim=form)
        add = lambda: Eq(K, 'PH0 + PH1', [K, X], verbatim=form)
        for n in (1, 2, 3):
            yield Program([Eq(Z, 'PH0 + PH1', [K, X])] + [double() for _ in range(n)], 'VS')
            yield Program([double() for _ in range(n)] + [Eq(Z, 'PH0 + PH1', [K, X])], 'VS')
            yield Program([add() for _ in range(n)] + [Eq(Z, 'PH0 - PH1', [K, Term('X', 'v', -1)])] + [double()], 'VS')
        yield Program([double(), Eq(Z, 'PH0 + PH1', [K, X]), double(), Eq(Y, 'PH0 * PH1', [Z, K]), add(), double()], 'VS')
        yield Program([Eq(Z, 'PH0 + PH1', [K, X]), Eq(K, 'PH0 + 1', [K], verbatim=form), Eq(K, 'PH0  +  1', [K], raw=True, verbatim=form), double(), double()], 'VS')


S3_LEAVES = [Term('X'), Term('Y', 'v', -1), Term('a', 'p'), Lit('2')]
S3_UNARY = ['-{}', 'exp({})', 'abs({})', 'not {}']
S3_BINARY = ['{} + {}', '{} - {}', '{} * {}', '{} / {}', '{} ** {}', '{} < {}', '{} >= {}', 'max({}, {})', 'min({}, {})', '{} and {}', '{} or {}']
S3_TERNARY = ['{} if {} else {}']

_SHAPES = {}


def shapes(n):
    """All expression shapes with exactly n nodes; leaf slots written as '@'."""
    if n in _SHAPES:
        return _SHAPES[n]
    out = []
    if n == 1:
        out = ['@']
    else:
        for u in S3_UNARY:
            for s in shapes(n - 1):
                out.append(u.format('(' + s + ')'))
        for a in range(1, n - 1):
            b = n - 1 - a
            if b < 1:
                continue
            for op in S3_BINARY:
                for sa in shapes(a):
                    for sb in shapes(b):
                        out.append(op.format('(' + sa + ')', '(' + sb + ')'))
        for a in range(1, n - 2):
            for b in range(1, n - 1 - a):
                c = n - 1 - a - b
                if c < 1:
                    continue
                for op in S3_TERNARY:
                    for sa in shapes(a):
                        for sb in shapes(b):
                            for sc in shapes(c):
                                out.append(op.format('(' + sa + ')', '(' + sb + ')', '(' + sc + ')'))
    _SHAPES[n] = out
    return out


def s3(max_nodes, min_nodes=1):
    lhs = Term('Y')
    for n in range(min_nodes, max_nodes + 1):
        for shape in shapes(n):
            k = shape.count('@')
            parts = shape.split('@')
            ctx = ''.join(p + ('PH%d' % i if i < k else '') for i, p in enumerate(parts))
            for leaves in itertools.product(S3_LEAVES, repeat=k):
                if all(_lit(l) for l in leaves):
                    continue
                yield Program([Eq(lhs, ctx, list(leaves))], 'S3-%d' % n)


S4_RHS = [
    ('PH0', [('A', 0)]), ('PH0', [('B', -1)]), ('PH0', [('C', 1)]), ('PH0', [('X', 0)]),
    ('PH0 + PH1', [('B', 0), ('C', -1)]), ('PH0 + PH1', [('A', -1), ('X', 0)]), ('PH0 - PH1', [('C', 0), ('A', 1)]),
    ('PH0 * PH1 - PH2', [('A', 0), ('B', 0), ('C', 0)]), ('max(PH0, PH1)', [('B', 0), ('A', -2)]),
    ('PH0 if PH1 > 0 else PH2', [('X', 0), ('C', 0), ('B', 1)]), ('PH0 / PH1', [('C', -1), ('B', 0)]), ('-PH0', [('A', 0)]),
]


def s4(n_options=None):
    """All 2- and 3-equation programs: every ordering of the left-hand sides x every tuple of right-hand sides."""
    opts = S4_RHS if n_options is None else S4_RHS[:n_options]
    for k in (2, 3):
        for lhs in itertools.permutations(['A', 'B', 'C'], k):
            for rhs in itertools.product(opts, repeat=k):
                eqs = []
                for name, (ctx, leaves) in zip(lhs, rhs):
                    eqs.append(Eq(Term(name), ctx, [Term(n, 'v', o) for n, o in leaves]))
                yield Program(eqs, 'S4-%d' % k)


# --------------------------------------------------------------------------- script catalogue for the tools / build checks

SPECIALS = [
    '',
    'Y = C + I + G',
    'C = {alpha_1} * YD + {alpha_2} * H[-1]\nYD = Y - T\nY = C + G\nT = {theta} * Y\nH = H[-1] + YD - C',
    'Y = X[1] + <e>',
    'Y = exp(X[-1]) * {a} + <e> + Y[-1] if Z > 0 else W[2]',
    'A = B + C[-1]\nB = max(A[-1], D) - abs(<u>)\nE = `self._A[t]` + F[1]',
    "Y = X['b'] + Z",
    'Y = X[`1`] + Z[-1]',
    '```\nself._Y[t] = 1.0\n```',
    '```\nif t > 0:\n    self._Y[t] = self._Y[t-1]\n```\nZ = Y + 1',
    'Y = (X +\n     Z[-1])',
    '(Y =\n   X * 2)',
    'Y = X  # a comment\n\n# only a comment\nZ = Y[-1]',
    'Y = np.sqrt(X) + np.log(Z)',
    'Y = not X or Z and W',
    'Y = X if Z else W',
    'Y = lambda_x + in_ + is_open + not_X',
    'Y = max(0, min(X, Z[-1]), W[2])',
    'Y = float(X) + int(Z)',
    'Y = X ** 2 ** 0.5',
    'Y = -X',
    'Y = {a}',
    'Y = <e>',
    'Y = 1',
    'Y[1] = X + Y[-1]',
    'Y = Y',
    '```\nself._Y[t] = self._Y[t] + 1.0\n```\nY = X\n```\nself._Y[t] = self._Y[t] + 1.0\n```',
    '`self._Y[t] = self._Y[t] * 2`\n`self._Y[t] = self._Y[t] * 2`\nZ = Y',
    'Y = {lam} * Y + (1 - {lam}) * (C + G)',
    'K = K + I - {d} * K[-1]',
    'nan = na + NaN[-1] + {none} * <null>\nNone_ = nan + inf',   # names that read like missing-value markers are names
]


def catalogue(tier='quick'):
    """Script strings for checks that work on parsed symbol lists (C14/C15/C19/C20): specials + S1 + S2 (+ S4, S3 in thorough)."""
    seen, out = set(), []

    def add(s):
        if s not in seen:
            seen.add(s)
            out.append(s)

    for s in SPECIALS:
        add(s)
    for p in s1():
        add(p.script())
    for p in s2():
        add(p.script())
    for p in s4(6 if tier == 'quick' else None):
        add(p.script())
    if tier != 'quick':
        for p in s3(4):
            add(p.script())
    return out
