# -*- coding: utf-8 -*-
"""Scripted models: hand-written BaseModel subclasses whose `_evaluate` realises a prescribed
sequence of per-pass *outcomes* with exact binary arithmetic (tol = 0.5, steps are multiples of 0.25).

Outcome alphabet (as in models/SolveT.tla) and its concretisation variants:

    conv   0: A += .25, B -= .25       1: no move (from a non-finite state: fresh values within tol of 0)   2: A -= .25 only   3: A += .25 via a rebinding list assignment
    moved  0: far (A = 10000 n + 1, B = -(10000 n + 1))   1: B += tol exactly (strict <, last variable only)
           2: A -= tol exactly (absolute value, first variable only)   3: only B far   4: A -= 1.0 only   5: B far via a rebinding list assignment
           6: both far AND huge (about 1e308 each: finite values whose sum is not)
    nanw   0: A = 1/0 (np.float64, RuntimeWarning)   1: B = log(0)   2: A = 0/0
           3: a guarded helper warns with UserWarning, then A = nan   4: ... with a DeprecationWarning subclass, then B = inf
    nans   0: B = nan   1: A = +inf   2: B = -inf      (stored silently)
    exc    0: raise Boom   1: Python 1.0/0.0 (ZeroDivisionError)   2: IndexError (a table runs out)   3: KeyError
           4: the library's own SolutionError raised by model code   5: NonConvergenceError raised by model code (e.g. a nested solve)

A finite outcome reached from a non-finite state *assigns* fresh finite values (incrementing NaN
leaves NaN). C is an endogenous variable that is NOT a check variable and jumps by 100 every pass; X is
exogenous and never written.
"""
import warnings

import numpy as np

import fsic

TOL = 0.5

VARIANTS = {'conv': 4, 'moved': 7, 'nanw': 5, 'nans': 3, 'exc': 6}


def _real(x):
    """The value as a Python float; the series may be complex (a model built with dtype=complex), the values are real."""
    return float(np.real(x))


class Boom(Exception):
    pass


class _HelperWarning(DeprecationWarning):
    pass


def _hook_exception(kind, where):
    """The exception a failing hook raises: any kind must surface as SolutionError chained to it."""
    from fsic.exceptions import NonConvergenceError, SolutionError
    if kind == 'SolutionError':
        return SolutionError('inner ' + where)
    if kind == 'NonConvergenceError':
        return NonConvergenceError('inner ' + where)
    if kind == 'KeyError':
        return KeyError('inner ' + where)
    return Boom(where)


class ScriptedBase:
    """Mixin holding the scripted behaviour; combine with BaseModel (and optionally extension mixins)."""

    ENDOGENOUS = ['A', 'B', 'C']
    EXOGENOUS = ['X']
    PARAMETERS = []
    ERRORS = []
    NAMES = ENDOGENOUS + EXOGENOUS
    CHECK = ['A', 'B']
    LAGS = 0
    LEADS = 0

    def prepare(self, scripts=None, pre_exc=False, post_exc=False, default=('moved', 0), hooks_write=False):
        d = self.__dict__
        d['_sc_hooks_write'] = hooks_write
        d['_sc_scripts'] = {int(k): list(v) for k, v in (scripts or {}).items()}
        d['_sc_n'] = {}
        d['_sc_log'] = []
        d['_sc_pre_exc'] = pre_exc
        d['_sc_post_exc'] = post_exc
        d['_sc_default'] = default
        return self

    def _pos(self, t):
        return t + len(self.span) if t < 0 else t

    def solve_t_before(self, t, **kw):
        self.__dict__['_sc_log'].append(('pre', self._pos(t), kw.get('iteration')))
        if 'marker' in kw:
            # a keyword of the caller's own, passed through every solve method to the hooks (what **kwargs is for)
            self.__dict__['_sc_log'].append(('marker', self._pos(t), kw['marker']))
        if self.__dict__.get('_sc_hooks_write') == 'check':
            self._A[t] += 1000.0  # a pre-solution calculation that moves a CHECK variable (finite): pass 1 is judged against the state on entry
        elif self.__dict__.get('_sc_hooks_write'):
            self._C[t] += 1000.0  # a pre-solution calculation on a non-check endogenous variable
        if self.__dict__['_sc_pre_exc'] == 'nan-write':
            self._A[t] = float('nan')  # e.g. an observed series with a gap is loaded into a check variable: silently, no warning
        elif self.__dict__['_sc_pre_exc'] == 'warn':
            warnings.warn('pre-solution hook: series has missing values', UserWarning)  # a warning, not an exception: an error only under errors='raise' + catch_first_error
        elif self.__dict__['_sc_pre_exc']:
            raise _hook_exception(self.__dict__['_sc_pre_exc'], 'pre')

    def solve_t_after(self, t, **kw):
        self.__dict__['_sc_log'].append(('post', self._pos(t), kw.get('iteration')))
        if self.__dict__.get('_sc_hooks_write'):
            self._C[t] += 5000.0  # a post-solution calculation
        if self.__dict__['_sc_post_exc'] == 'warn':
            warnings.warn('post-solution hook: memo item divides by zero', RuntimeWarning)
        elif self.__dict__['_sc_post_exc']:
            raise _hook_exception(self.__dict__['_sc_post_exc'], 'post')

    def _evaluate(self, t, **kw):
        d = self.__dict__
        p = self._pos(t)
        n = d['_sc_n'].get(p, 0)
        script = d['_sc_scripts'].get(p, [])
        o, v = script[n] if n < len(script) else d['_sc_default']
        d['_sc_n'][p] = n + 1
        d['_sc_log'].append(('eval', p, kw.get('iteration'), (_real(self._A[t]), _real(self._B[t]), _real(self._C[t]), _real(self._X[t]))))
        self._C[t] = (self._C[t] if np.isfinite(self._C[t]) else 0.0) + 100.0
        nonfinite = not (np.isfinite(self._A[t]) and np.isfinite(self._B[t]))
        if o in ('conv', 'moved') and nonfinite:
            s = d['_sc_n'][p]
            if o == 'conv' and v == 1:
                # fresh values within tol of zero: a pass that starts from non-finite values is not judged even then
                self._A[t] = 0.25
                self._B[t] = -0.25
                return
            self._A[t] = 8.0 * s + 500.0 * (o == 'moved')
            self._B[t] = -8.0 * s - 500.0 * (o == 'moved')
            return
        if o == 'conv':
            if v == 0:
                self._A[t] += 0.25
                self._B[t] -= 0.25
            elif v == 2:
                self._A[t] -= 0.25
            elif v == 3:
                vals = self._A.tolist()  # converging step written through a rebinding whole-series assignment
                vals[t] += 0.25
                self.A = vals
        elif o == 'moved':
            s = d['_sc_n'][p]
            if v == 0:
                # far from every value any earlier pass can have left (fresh assignments stay below 1000, far moves are 10000 apart)
                self._A[t] = 10000.0 * s + 1.0
                self._B[t] = -10000.0 * s - 1.0
            elif v == 1:
                self._B[t] = (self._B[t] if abs(self._B[t]) < 1e300 else 0.0) + TOL   # (from a huge value a step of tol would vanish in rounding)
            elif v == 2:
                self._A[t] = (self._A[t] if abs(self._A[t]) < 1e300 else 0.0) - TOL
            elif v == 3:
                self._B[t] = -20000.0 * s - 7.0
            elif v == 4:
                self._A[t] = (self._A[t] if abs(self._A[t]) < 1e300 else 0.0) - 1.0
            elif v == 6:
                # finite, far from anything before, and so large that the SUM of the check values overflows although each is finite
                self._A[t] = 1.2e308 - 1e302 * s    # (steps far above the spacing of doubles at this magnitude, about 2e292)
                self._B[t] = 1.1e308 - 1e302 * s
            elif v == 5:
                # whole-series assignment from a list REBINDS the array of a check variable during the solve
                vals = self._B.tolist()
                vals[t] = -30000.0 * s - 3.0
                self.B = vals
        elif o == 'nanw':
            if v == 0:
                self._A[t] = np.float64(1.0) / np.float64(0.0)
            elif v == 1:
                self._B[t] = np.log(np.float64(0.0))
            elif v == 2:
                self._A[t] = np.float64(0.0) / np.float64(0.0)
            elif v == 3:
                # not every numerical problem is NumPy's: library code reports its own with other warning categories
                warnings.warn('guarded helper: argument out of range', UserWarning)
                self._A[t] = float('nan')
            else:
                warnings.warn('guarded helper: series is empty', _HelperWarning)
                self._B[t] = float('inf')
        elif o == 'nans':
            if v == 3:
                pass  # the pass leaves in place the NaN that the pre-solution hook has put into A (used with pre_exc='nan-write' only)
            elif v == 0:
                self._B[t] = float('nan')
            elif v == 1:
                self._A[t] = float('inf')
            else:
                self._B[t] = float('-inf')
        elif o == 'exc':
            if v == 0:
                raise Boom('eval')
            if v == 2:
                return [1.0, 2.0][t + 7]            # IndexError: whatever its class, an exception of model code is wrapped
            if v == 3:
                return {'a': 1.0}['missing']         # KeyError
            if v == 4:
                from fsic.exceptions import SolutionError
                raise SolutionError('raised by the model itself')
            if v == 5:
                from fsic.exceptions import NonConvergenceError
                raise NonConvergenceError('a nested solve did not converge')
            self._A[t] = 1.0 / 0.0
        else:
            raise AssertionError('unknown outcome %r' % (o,))

    # -- log helpers
    def sc_count(self, kind, pos=None):
        return sum(1 for e in self.__dict__['_sc_log'] if e[0] == kind and (pos is None or e[1] == pos))

    def sc_log(self):
        return list(self.__dict__['_sc_log'])


class Scripted(ScriptedBase, fsic.BaseModel):
    pass


def make_scripted(span, scripts=None, pre_exc=False, post_exc=False, cls=Scripted, hooks_write=False, **init):
    m = cls(span, **init)
    m.prepare(scripts, pre_exc, post_exc, hooks_write=hooks_write)
    return m


def snapshot(m):
    """Bytes of every series of a model (name -> bytes) for before/after comparison."""
    return {n: (m[n].dtype.str, m[n].shape, m[n].tobytes()) for n in m.index if m[n].dtype != object}


def changed_cells(before, m):
    """Set of (name, position) whose bytes differ from `before`."""
    out = set()
    for n in m.index:
        if n not in before:
            if m[n].dtype != object:
                out.add((n, None))
            continue
        dt, shape, raw = before[n]
        arr = m[n]
        if arr.dtype.str != dt or arr.shape != shape:
            out.add((n, None))
            continue
        old = np.frombuffer(raw, dtype=arr.dtype)
        item = arr.dtype.itemsize
        new = arr.tobytes()
        for i in range(len(arr)):
            if raw[i * item:(i + 1) * item] != new[i * item:(i + 1) * item]:
                out.add((n, i))
    return out
