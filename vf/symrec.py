# -*- coding: utf-8 -*-
"""E2 - recording values and the choice-point explorer.

A model is instantiated with dtype=object and every cell holds a distinct `Sym(('leaf', name, position))`.
Arithmetic builds immutable term trees, nothing is simplified. Data-dependent control (max/min, conditional
expressions, and/or/not, chained comparisons) reaches `Sym.__bool__`, which is a *choice point*: `explore`
re-runs the function once per complete sequence of branch outcomes (stateless, prefix replay, depth first;
divergence while replaying a prefix is a hard error). Two runs that yield the same set of
(path condition, writes) pairs compute the same function of the data.
"""
import numpy as np


class ReplayDivergence(Exception):
    pass


class Chooser:
    def __init__(self, prefix):
        self.prefix = list(prefix)
        self.taken = []
        self.pc = []

    def choose(self, cond):
        i = len(self.taken)
        v = self.prefix[i][1] if i < len(self.prefix) else True
        if i < len(self.prefix) and self.prefix[i][0] != cond.tree:
            raise ReplayDivergence('choice %d: expected condition %r, got %r' % (i, self.prefix[i][0], cond.tree))
        self.taken.append((cond.tree, v))
        self.pc.append((cond.tree, v))
        return v


_CUR = [None]


def T(x):
    if isinstance(x, Sym):
        return x.tree
    if isinstance(x, (np.floating, np.integer, np.bool_)):
        x = x.item()
    return ('const', repr(x))


class Sym:
    __slots__ = ('tree',)

    def __init__(self, tree):
        self.tree = tree

    def __repr__(self):
        return 'Sym%r' % (self.tree,)

    def __bool__(self):
        return _CUR[0].choose(self)

    def __hash__(self):
        return id(self)


def _bin(op, refl=False):
    def f(a, b):
        return Sym((op, T(b), T(a)) if refl else (op, T(a), T(b)))
    return f


for _name, _op in [('add', '+'), ('sub', '-'), ('mul', '*'), ('truediv', '/'), ('pow', '**'), ('floordiv', '//'), ('mod', '%')]:
    setattr(Sym, '__%s__' % _name, _bin(_op))
    setattr(Sym, '__r%s__' % _name, _bin(_op, True))
for _name, _op in [('lt', '<'), ('le', '<='), ('gt', '>'), ('ge', '>='), ('eq', '=='), ('ne', '!=')]:
    setattr(Sym, '__%s__' % _name, _bin(_op))
Sym.__neg__ = lambda a: Sym(('neg', T(a)))
Sym.__pos__ = lambda a: Sym(('pos', T(a)))
Sym.__abs__ = lambda a: Sym(('abs', T(a)))
Sym.arctan2 = lambda a, b: Sym(('arctan2', T(a), T(b)))
for _fn in ('exp', 'log', 'sqrt', 'log10', 'sin', 'cos', 'tanh', 'log1p', 'expm1', 'log2', 'arctan'):
    setattr(Sym, _fn, (lambda fn: lambda a: Sym((fn, T(a))))(_fn))


def explore(run, max_paths=4096):
    """Enumerate all complete choice sequences of `run()`. Returns list of (path condition, result)."""
    out = []
    stack = [[]]
    while stack:
        prefix = stack.pop()
        ch = Chooser(prefix)
        _CUR[0] = ch
        try:
            res = run()
        finally:
            _CUR[0] = None
        out.append((tuple(ch.pc), res))
        if len(out) > max_paths:
            raise OverflowError('more than %d paths' % max_paths)
        for i in range(len(prefix), len(ch.taken)):
            stack.append(ch.taken[:i] + [(ch.taken[i][0], False)])
    return out


def leaves_of(tree, acc=None):
    """Set of (name, position) leaves occurring in a term tree / path condition."""
    if acc is None:
        acc = set()
    if isinstance(tree, tuple):
        if tree and tree[0] == 'leaf':
            acc.add((tree[1], tree[2]))
        else:
            for x in tree:
                leaves_of(x, acc)
    return acc


def fill(m, names=None):
    """Put a distinct leaf into every cell of every variable in `names` (default: m.names)."""
    leaves = {}
    for n in (m.names if names is None else names):
        arr = m[n]
        for i in range(len(m.span)):
            leaf = Sym(('leaf', n, i))
            arr[i] = leaf
            leaves[(n, i)] = leaf
    return leaves


def run_model(Model, span, t, method='_evaluate', kwargs=None):
    """All (path condition, writes) pairs of one call of Model(...)._evaluate(t) over recording values."""
    kwargs = kwargs or {}

    def once():
        m = Model(span, dtype=object)
        leaves = fill(m)
        try:
            getattr(m, method)(t, **kwargs)
        except ReplayDivergence:
            raise
        except Exception as e:
            return ('EXC', type(e).__name__, str(e)[:80])
        writes = {}
        for (n, i), leaf in leaves.items():
            v = m[n][i]
            if v is not leaf:
                writes[(n, i)] = T(v)
        return tuple(sorted(writes.items()))

    return sorted(explore(once), key=repr)


def ref_env():
    return dict(exp=np.exp, log=np.log, max=max, min=min, abs=abs, np=np, float=float, int=int, len=len)


class _Series:
    def __init__(self, cells, name):
        self.cells, self.name = cells, name

    def __getitem__(self, i):
        return self.cells[(self.name, i)]


class _SelfView:
    """What a verbatim fragment sees as `self`: `self._NAME[i]` and `self['NAME', label]`."""

    def __init__(self, cells, label_pos):
        self.__dict__['_cells'] = cells
        self.__dict__['_label_pos'] = label_pos

    def __getattr__(self, attr):
        if attr.startswith('_'):
            return _Series(self.__dict__['_cells'], attr[1:])
        raise AttributeError(attr)

    def __getitem__(self, key):
        name, label = key
        return self.__dict__['_cells'][(name, self.__dict__['_label_pos'][label])]


def run_ref(eqs, names, span_len, t, label_pos=None):
    """Reference: CPython evaluates the placeholder expression of each equation, in the given order,
    with each placeholder bound to the cell it denotes (later equations see earlier writes).

    eqs: list of ((lhs_name, lhs_offset), code_object, {placeholder: (name, offset or ('label', text))})."""
    label_pos = label_pos or {}

    def once():
        cells = {(n, i): Sym(('leaf', n, i)) for n in names for i in range(span_len)}
        orig = dict(cells)
        for (ln, lo), code, phmap in eqs:
            env = ref_env()
            env['t'] = t
            env['self'] = _SelfView(cells, label_pos)  # for verbatim fragments, which address the storage directly
            for ph, (n, o) in phmap.items():
                pos = label_pos[o[1]] if isinstance(o, tuple) else t + o
                env[ph] = cells[(n, pos)]
            lpos = label_pos[lo[1]] if isinstance(lo, tuple) else t + lo
            try:
                cells[(ln, lpos)] = eval(code, {'__builtins__': {}}, env)
            except ReplayDivergence:
                raise
            except Exception as e:
                return ('EXC', type(e).__name__, str(e)[:80])
        return tuple(sorted(((k, T(v)) for k, v in cells.items() if v is not orig[k])))

    return sorted(explore(once), key=repr)
