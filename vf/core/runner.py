# -*- coding: utf-8 -*-
"""Runner shared by every check: accumulation of coverage, per-case timeouts,
static work partitioning over processes, known-findings filter, replay files,
evidence writer.

A check module (vf/checks/cNN.py) provides:

    ID, LEVEL, RULE, ASSUMPTIONS, TECHNIQUE
    blocks(tier, seed)            -> list of JSON-able block descriptors (the static work partition)
    run_block(block, tier, seed)  -> Acc       (runs in a worker process, enumerates its cases)
    run_one(case)                 -> list of (key, expected, observed, what) for ONE fine-grained case
    finalize(acc, tier)           -> optional, extra coverage keys / global checks in the parent

Nothing here samples: randomness only ever comes from an explicit seed handed to a check's
*supplementary* sampler, and is reported separately.
"""
import collections
import hashlib
import json
import multiprocessing as mp
import os
import signal
import sys
import time
import traceback

ROOT = os.path.dirname(os.path.dirname(os.path.dirname(os.path.abspath(__file__))))
EVIDENCE_DIR = os.path.join(ROOT, 'evidence')
if os.path.abspath(os.environ.get('VERIF_REPO', '/repo')) != '/repo':
    # a run against another tree (tools/eval_mutant.py, tools/qm.sh) must not overwrite the evidence about /repo
    EVIDENCE_DIR = os.path.join(ROOT, '.work', 'evidence-other-tree')
    os.makedirs(EVIDENCE_DIR, exist_ok=True)
REPLAY_DIR = os.path.join(ROOT, 'replay')
FINDINGS_FILE = os.path.join(ROOT, 'known_findings.json')
WORK_DIR = os.path.join(ROOT, '.work')

MAX_VIOLATION_LINES = 5


class CaseTimeout(BaseException):
    """Raised inside a guarded case when it exceeds its time allowance."""


class HarnessError(Exception):
    """The machinery itself failed (never reported as 'held')."""


def _alarm(signum, frame):
    raise CaseTimeout()


class guard:
    """Per-case wall-clock allowance (seconds, float). Non-termination is an observable, not a hang."""

    def __init__(self, seconds):
        self.seconds = seconds

    def __enter__(self):
        self.old = signal.signal(signal.SIGALRM, _alarm)
        signal.setitimer(signal.ITIMER_REAL, self.seconds)
        return self

    def __exit__(self, *exc):
        signal.setitimer(signal.ITIMER_REAL, 0)
        signal.signal(signal.SIGALRM, self.old)
        return False


def robust(n_extra=0, fill=None):
    """Decorator for per-case functions: an exception escaping from the code under test (one the check did not
    anticipate) is itself an observation - it is turned into a violation tuple in the function's return shape
    instead of crashing the run. Harness-level signals (timeouts, replay divergence, HarnessError) pass through."""
    def deco(fn):
        def wrapped(*a, **k):
            try:
                return fn(*a, **k)
            except (CaseTimeout, HarnessError):
                raise
            except Exception as e:
                if type(e).__name__ == 'ReplayDivergence':
                    raise
                tb = traceback.format_exc().strip().splitlines()
                v = [('unexpected-exception:%s:%s' % (fn.__name__, type(e).__name__), 'no exception', tb[-3:],
                      'the code under test raised an exception this check does not expect here')]
                if n_extra == 0:
                    return v
                extra = fill if isinstance(fill, tuple) else (fill,) * n_extra
                return (v,) + tuple(extra)
        wrapped.__name__ = fn.__name__
        wrapped.__doc__ = fn.__doc__
        return wrapped
    return deco


def jsonable(x, depth=0):
    """Best-effort conversion of a case/observation to something json.dump accepts."""
    import numpy as np

    if depth > 8:
        return repr(x)
    if x is None or isinstance(x, (bool, int, str)):
        return x
    if isinstance(x, float):
        if x != x or x in (float('inf'), float('-inf')):
            return repr(x)
        return x
    if isinstance(x, (np.bool_,)):
        return bool(x)
    if isinstance(x, np.integer):
        return int(x)
    if isinstance(x, np.floating):
        return jsonable(float(x))
    if isinstance(x, np.ndarray):
        return {'ndarray': jsonable(x.tolist(), depth + 1), 'dtype': str(x.dtype), 'shape': list(x.shape)}
    if isinstance(x, dict):
        return {str(k): jsonable(v, depth + 1) for k, v in x.items()}
    if isinstance(x, (list, tuple, set, frozenset)):
        seq = list(x)
        if isinstance(x, (set, frozenset)):
            seq = sorted(seq, key=repr)
        return [jsonable(v, depth + 1) for v in seq]
    return repr(x)


class Acc:
    """Coverage accumulator; mergeable across workers."""

    def __init__(self):
        self.evaluations = 0
        self.nontrivial = 0
        self.states = 0
        self.transitions = 0
        self.traces = 0
        self.counters = collections.Counter()
        self.outcomes = collections.Counter()
        self.samples = []
        self.violations = {}  # key -> dict(count, first)
        self.notes = []
        self.caps = []
        self.frontier = {}  # state key -> shortest history reaching it (explicit-state searches)

    # -- counting
    def n(self, name, k=1):
        self.counters[name] += k

    def outcome(self, label, k=1):
        self.outcomes[str(label)] += k

    def sample(self, case, limit=6):
        if len(self.samples) < limit:
            self.samples.append(jsonable(case))

    def violation(self, key, case, expected=None, observed=None, what=''):
        v = self.violations.get(key)
        if v is None:
            self.violations[key] = {
                'count': 1,
                'first': {
                    'key': key,
                    'case': jsonable(case),
                    'expected': jsonable(expected),
                    'observed': jsonable(observed),
                    'what': what,
                },
            }
        else:
            v['count'] += 1

    def merge(self, other):
        self.evaluations += other.evaluations
        self.nontrivial += other.nontrivial
        self.states += other.states
        self.transitions += other.transitions
        self.traces += other.traces
        self.counters.update(other.counters)
        self.outcomes.update(other.outcomes)
        for s in other.samples:
            if len(self.samples) < 8:
                self.samples.append(s)
        for k, v in other.violations.items():
            mine = self.violations.get(k)
            if mine is None:
                self.violations[k] = v
            else:
                mine['count'] += v['count']
                a, b = json.dumps(mine['first']['case'], default=repr), json.dumps(v['first']['case'], default=repr)
                if (len(b), b) < (len(a), a):  # keep the shortest witness (deterministic tie-break)
                    mine['first'] = v['first']
        self.notes.extend(other.notes)
        self.caps.extend(other.caps)
        for k, h in other.frontier.items():
            mine = self.frontier.get(k)
            if mine is None or (len(h), h) < (len(mine), mine):
                self.frontier[k] = h
        return self


# --------------------------------------------------------------------------- work distribution

_MOD = None
_TIER = None
_SEED = None


def _init_worker(modname, tier, seed):
    global _MOD, _TIER, _SEED
    import importlib

    _MOD = importlib.import_module(modname)
    _TIER, _SEED = tier, seed
    signal.signal(signal.SIGINT, signal.SIG_IGN)


def _raised_in_code_under_test(exc):
    """True if the exception was raised in (or passed through) a frame of the library under test."""
    repo = os.path.abspath(os.environ.get('VERIF_REPO', '/repo')) + os.sep
    tb = exc.__traceback__
    while tb is not None:
        if os.path.abspath(tb.tb_frame.f_code.co_filename).startswith(repo):
            return True
        tb = tb.tb_next
    return False


def _block_exception_as_violation(block, exc):
    acc = Acc()
    lines = traceback.format_exception(type(exc), exc, exc.__traceback__)
    acc.violation('unexpected-exception:block:%s' % type(exc).__name__, {'__block__': block}, 'no exception', [l.strip() for l in lines[-3:]],
                  'the code under test raised an exception while a block of cases was being prepared or run (outside any single guarded case)')
    return acc


def _run_block(block):
    try:
        return ('ok', _MOD.run_block(block, _TIER, _SEED))
    except CaseTimeout:
        return ('err', 'unguarded timeout in block %r' % (block,))
    except HarnessError:
        return ('err', 'block %r\n%s' % (block, traceback.format_exc()))
    except Exception as e:
        # an exception that comes out of the library under test is an observation about it (reported as a violation with the block as
        # its case); one raised by the harness alone stays a harness error - "never held", but no verdict either
        if _raised_in_code_under_test(e):
            return ('ok', _block_exception_as_violation(block, e))
        return ('err', 'block %r\n%s' % (block, traceback.format_exc()))
    except BaseException:
        return ('err', 'block %r\n%s' % (block, traceback.format_exc()))


def pmap_blocks(modname, blocks, tier, seed, procs=None):
    """Run every block; blocks are a static partition, results are summed (order-independent)."""
    procs = procs or min(len(blocks), int(os.environ.get('VERIF_PROCS', '0')) or mp.cpu_count())
    total = Acc()
    if procs <= 1 or len(blocks) <= 1:
        _init_worker(modname, tier, seed)
        for b in blocks:
            st, r = _run_block(b)
            if st != 'ok':
                raise HarnessError(r)
            total.merge(r)
        return total
    ctx = mp.get_context('fork')
    with ctx.Pool(procs, initializer=_init_worker, initargs=(modname, tier, seed)) as pool:
        for st, r in pool.imap_unordered(_run_block, blocks, chunksize=1):
            if st != 'ok':
                pool.terminate()
                raise HarnessError(r)
            total.merge(r)
    return total


# --------------------------------------------------------------------------- findings / replay / evidence


def load_findings(prop):
    if not os.path.exists(FINDINGS_FILE):
        return {}
    with open(FINDINGS_FILE) as f:
        data = json.load(f)
    return {e['key']: e for e in data.get('findings', []) if e['property'] == prop and e.get('status') == 'open'}


def write_replay(prop, rec):
    d = os.path.join(REPLAY_DIR, prop)
    os.makedirs(d, exist_ok=True)
    body = json.dumps({'property': prop, **rec}, indent=1, sort_keys=True, default=repr)
    h = hashlib.sha1(body.encode()).hexdigest()[:12]
    path = os.path.join(d, h + '.json')
    with open(path, 'w') as f:
        f.write(body + '\n')
    return path


def main_check(mod, tier, seed):
    """Run one check module end to end. Returns the process exit code."""
    t0 = time.time()
    prop = mod.ID
    os.makedirs(EVIDENCE_DIR, exist_ok=True)
    evidence_path = os.path.join(EVIDENCE_DIR, prop + '.json')
    if os.path.exists(evidence_path):
        os.remove(evidence_path)

    extra = {}
    blocks = []
    try:
        blocks = mod.blocks(tier, seed)
        acc = pmap_blocks(mod.__name__, blocks, tier, seed)
        if hasattr(mod, 'finalize'):
            extra = mod.finalize(acc, tier, seed) or {}
    except HarnessError:
        raise
    except Exception as e:
        # the library under test raised while the check was laying out its work (building its root objects, say): reported as a
        # violation for the same reason as in _run_block; an exception of the harness's own making is re-raised (exit 2)
        if not _raised_in_code_under_test(e):
            raise
        acc = _block_exception_as_violation({'phase': 'laying out the blocks / finalising'}, e)
        acc.caps.append('the enumeration did not run: the library raised while the check was being set up')

    known = load_findings(prop)
    new, listed = [], []
    for key in sorted(acc.violations, key=lambda k: (len(json.dumps(acc.violations[k]['first']['case'], default=repr)), k)):
        v = acc.violations[key]
        (listed if key in known else new).append((key, v))

    for key, v in listed:
        print('KNOWN-FINDING: property=%s key=%s cases=%d %s' % (prop, key, v['count'], known[key].get('what', '')))

    for key, v in new[:MAX_VIOLATION_LINES]:
        path = write_replay(prop, v['first'])
        print('VIOLATION property=%s replay=%s' % (prop, path))
        print('  key=%s cases=%d %s' % (key, v['count'], v['first'].get('what', '')))
        print('  case=%s' % json.dumps(v['first']['case'], default=repr)[:600])
        print('  expected=%s' % json.dumps(v['first']['expected'], default=repr)[:400])
        print('  observed=%s' % json.dumps(v['first']['observed'], default=repr)[:400])
    if len(new) > MAX_VIOLATION_LINES:
        print('  ... and %d further violation keys (see evidence file)' % (len(new) - MAX_VIOLATION_LINES))

    level = mod.LEVEL
    cov = {
        'evaluations': int(acc.evaluations),
        'distinct_nontrivial': int(acc.nontrivial),
        'rule': mod.RULE,
        'samples': acc.samples[:8] or [{'note': 'no sample recorded'}],
        'exhaustive': not acc.caps,
        'blocks': len(blocks),
        'counters': dict(sorted(acc.counters.items())),
        'distinct_outcomes': dict(sorted(acc.outcomes.items())),
        'caps_hit': acc.caps,
        'known_findings_matched': {k: v['count'] for k, v in listed},
        'violation_keys': {k: v['count'] for k, v in new},
    }
    if level == 'model_checking':
        cov['states'] = int(acc.states)
        cov['transitions'] = int(acc.transitions)
        cov['traces_validated_against_impl'] = int(acc.traces)
    cov.update(extra)
    if acc.notes:
        cov['notes'] = acc.notes[:20]
    ev = {
        'property_id': prop,
        'tier': tier,
        'seed': int(seed),
        'level': level,
        'coverage': cov,
        'assumptions': list(getattr(mod, 'ASSUMPTIONS', [])),
        'wall_s': round(time.time() - t0, 3),
        'violations': len(new),
    }
    with open(evidence_path, 'w') as f:
        json.dump(ev, f, indent=1, default=repr)
        f.write('\n')

    print(
        '%s tier=%s evaluations=%d nontrivial=%d states=%d transitions=%d traces=%d outcomes=%d wall=%.1fs violations=%d known=%d'
        % (prop, tier, acc.evaluations, acc.nontrivial, acc.states, acc.transitions, acc.traces, len(acc.outcomes), time.time() - t0, len(new), len(listed))
    )
    if acc.evaluations == 0 and not new:
        raise HarnessError('vacuous run: no case executed')
    return 1 if new else 0


def main_replay(mod, path):
    with open(path) as f:
        rec = json.load(f)
    case = rec['case']
    if isinstance(case, dict) and '__block__' in case:
        # a violation recorded for a whole block (an exception from the library outside any single case): run the block again, twice
        def once():
            _init_worker(mod.__name__, rec.get('tier', 'quick'), 0)
            if 'phase' in case['__block__']:
                try:
                    mod.blocks(rec.get('tier', 'quick'), 0)
                    return []
                except Exception as e:
                    return [['unexpected-exception:block:%s' % type(e).__name__, 'raised while the check was being set up']] if _raised_in_code_under_test(e) else []
            st, r = _run_block(case['__block__'])
            return [] if st != 'ok' else [[k, v['first']['what']] for k, v in sorted(r.violations.items()) if k.startswith('unexpected-exception:block')]
        a, b = jsonable(once()), jsonable(once())
    else:
        a = jsonable(mod.run_one(case))
        b = jsonable(mod.run_one(case))
    if a != b:
        print('REPLAY-DIVERGENCE: two runs of the same case differ')
        print(json.dumps(a, default=repr)[:2000])
        print(json.dumps(b, default=repr)[:2000])
        return 2
    if a:
        for v in a:
            print('VIOLATION property=%s replay=%s' % (mod.ID, path))
            print('  ' + json.dumps(v, default=repr)[:1500])
        return 1
    print('replay: case holds on the current tree')
    return 0
