# -*- coding: utf-8 -*-
"""Canonical observations of fsic objects (E4): everything a property can see, nothing it cannot.

`observe(obj)` returns a nested tuple structure that is hashable and comparable; two objects with equal
observations are indistinguishable through the public API used by the checks (variables with dtype/shape/
bytes, span labels and type, index order, every instance attribute with a deep canonical value, strictness,
submodels recursively, Trace contents)."""
import numpy as np


def canon(x, depth=0):
    if depth > 12:
        return ('deep', repr(type(x)))
    if x is None or isinstance(x, (bool, int, str, bytes)):
        return (type(x).__name__, x)
    if isinstance(x, float):
        return ('float', repr(x))
    if isinstance(x, np.generic):
        return ('np', x.dtype.str, x.tobytes() if x.dtype != object else repr(x))
    if isinstance(x, np.ndarray):
        if x.dtype == object:
            return ('ndarray-object', x.shape, tuple(canon(v, depth + 1) for v in x.ravel().tolist()))
        return ('ndarray', x.dtype.str, x.shape, np.ascontiguousarray(x).tobytes())
    if isinstance(x, range):
        return ('range', x.start, x.stop, x.step)
    if isinstance(x, (list, tuple)):
        return (type(x).__name__, tuple(canon(v, depth + 1) for v in x))
    if isinstance(x, (set, frozenset)):
        return (type(x).__name__, tuple(sorted((canon(v, depth + 1) for v in x), key=repr)))
    if isinstance(x, dict):
        return ('dict', tuple((canon(k, depth + 1), canon(v, depth + 1)) for k, v in x.items()))
    tn = type(x).__name__
    mod = type(x).__module__ or ''
    if mod.startswith('pandas'):
        try:
            return ('pandas', tn, str(getattr(x, 'dtype', '')), tuple(canon(v, depth + 1) for v in list(x)))
        except Exception:
            return ('pandas', tn, repr(x))
    if tn == 'Trace':
        return ('Trace', canon(list(x.names), depth + 1), canon(list(x.index), depth + 1), canon(x.values, depth + 1))
    if hasattr(x, 'span') and hasattr(x, 'index') and hasattr(x, 'add_variable'):
        return observe(x, depth + 1)
    if isinstance(x, type):
        return ('class', x.__name__)
    if callable(x):
        return ('callable', getattr(x, '__name__', repr(type(x))))
    try:
        return ('obj', tn, canon(vars(x), depth + 1))
    except TypeError:
        return ('obj', tn, repr(x))


def observe(obj, depth=0):
    d = vars(obj)
    index = list(obj.index)
    storage = {'_' + n for n in index}
    variables = []
    for n in index:
        try:
            v = obj[n] if not hasattr(obj, 'aliases') else d['_' + n]
        except Exception as e:  # a variable that cannot be read back is itself an observation
            variables.append((n, 'unreadable', type(e).__name__))
            continue
        variables.append((n, canon(np.asarray(v) if not isinstance(v, np.ndarray) else v, depth + 1)))
    attrs = []
    for k in d:
        if k in storage or k in ('index',):
            continue
        if k == 'submodels':
            attrs.append((k, tuple((canon(sk, depth + 1), observe(sv, depth + 1)) for sk, sv in d[k].items())))
            continue
        attrs.append((k, canon(d[k], depth + 1)))
    return (
        'container',
        type(obj).__name__,
        tuple(index),
        tuple(variables),
        tuple(attrs),
    )


def class_state(cls):
    """Class-level mutable attributes that instances must never change (C11)."""
    out = []
    for k in ('NAMES', 'ENDOGENOUS', 'EXOGENOUS', 'PARAMETERS', 'ERRORS', 'CHECK', 'LAGS', 'LEADS', 'ALIASES',
              'PREFERRED_NAMES', 'TRACE_VARIABLES', 'TRACE_NAME'):
        if k in ('LAGS', 'LEADS') and isinstance(getattr(type, k, None), property):
            continue
        try:
            v = cls.__dict__.get(k, None)
            for base in cls.__mro__:
                if k in base.__dict__:
                    v = base.__dict__[k]
                    break
        except Exception:
            v = None
        if isinstance(v, property):
            continue
        out.append((k, canon(v)))
    return tuple(out)


def diff_obs(a, b, path='', out=None, limit=6):
    """Human-readable list of the places where two observations differ."""
    if out is None:
        out = []
    if len(out) >= limit:
        return out
    if a == b:
        return out
    if isinstance(a, tuple) and isinstance(b, tuple) and len(a) == len(b):
        for i, (x, y) in enumerate(zip(a, b)):
            label = x[0] if isinstance(x, tuple) and x and isinstance(x[0], str) else str(i)
            diff_obs(x, y, path + '/' + label, out, limit)
        return out
    ra, rb = repr(a), repr(b)
    out.append('%s: %s != %s' % (path, ra[:160], rb[:160]))
    return out
