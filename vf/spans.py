# -*- coding: utf-8 -*-
"""Catalogue of span types (C05, C10, C12, C16, C19). Every factory returns a *fresh* span object of
length n together with the plain list of its labels (the reference for positions)."""
import numpy as np
import pandas as pd


def _range(n):
    return range(2000, 2000 + n)


def _range_zero(n):
    return range(-2, n - 2)  # contains the falsy label 0 (away from both ends for n >= 4)


def _list_falsy(n):
    return [3, 0, '', 'b', -1, 5, 'c', 9][:n]  # falsy labels 0 and '' are ordinary labels


def _list_str(n):
    return ['p%s' % chr(97 + i) for i in range(n)]


def _list_mixed(n):
    pool = [7, 'x', (1, 2), None, 3.5, 'yy', -1, (0,)]
    return pool[:n]


def _tuple_int(n):
    return tuple(range(10, 10 + n))


def _np_int(n):
    return np.arange(10, 10 + n)


def _np_str(n):
    return np.array(['q%d' % i for i in range(n)])


def _np_unsorted(n):
    return np.array([15, 13, 19, 11, 17, 12, 18, 14][:n])  # a NumPy span is not assumed to be sorted


def _np_str_unsorted(n):
    return np.array(['north', 'east', 'west', 'south', 'mid', 'alt', 'top', 'low'][:n])


def _list_names(n):
    # period labels that are also variable names, alias names and attribute names of the objects under test
    return ['Y', 'K', 'GDP', 'X', 'out', 'cap', 'status', 't'][:n]


def _pd_int(n):
    return pd.Index(list(range(7, 7 + n)))


def _pd_str(n):
    return pd.Index(['s%d' % i for i in range(n)])


def _pd_unsorted(n):
    return pd.Index([5, 3, 9, 1, 7, 2, 8, 4][:n])


def _pd_year(n):
    return pd.period_range('2000', periods=n, freq='Y')


def _pd_quarter(n):
    return pd.period_range('1999Q3', periods=n, freq='Q')


def _pd_day(n):
    return pd.date_range('2000-01-30', periods=n, freq='D')


def _range_step(n):
    return range(2000, 2000 + 5 * n, 5)   # five-yearly periods: a label is not its distance from the first one


SPAN_TYPES = {
    'range': _range,
    'range_step': _range_step,
    'range_zero': _range_zero,
    'list_falsy': _list_falsy,
    'list_str': _list_str,
    'list_mixed': _list_mixed,
    'tuple_int': _tuple_int,
    'np_int': _np_int,
    'np_str': _np_str,
    'np_unsorted': _np_unsorted,
    'np_str_unsorted': _np_str_unsorted,
    'list_names': _list_names,
    'pd_int': _pd_int,
    'pd_str': _pd_str,
    'pd_unsorted': _pd_unsorted,
    'pd_year': _pd_year,
    'pd_quarter': _pd_quarter,
    'pd_day': _pd_day,
}

MAX_LEN = {'list_mixed': 8, 'pd_unsorted': 8, 'list_falsy': 8, 'np_unsorted': 8, 'np_str_unsorted': 8, 'list_names': 8}


def make(kind, n):
    span = SPAN_TYPES[kind](n)
    labels = list(span)
    return span, labels


def absent_label(kind):
    """A label of the right flavour that is in no span of this kind."""
    return {
        'range': 1999, 'range_step': 2001, 'range_zero': 99, 'list_falsy': 'absent', 'list_str': 'zz', 'list_mixed': 'absent', 'tuple_int': 9, 'np_int': 9, 'np_str': 'zz', 'np_unsorted': 16, 'np_str_unsorted': 'mn', 'list_names': 'absent',
        'pd_int': 6, 'pd_str': 'zz', 'pd_unsorted': 6,
        'pd_year': pd.Period('1990', freq='Y'), 'pd_quarter': pd.Period('1990Q1', freq='Q'),
        'pd_day': pd.Timestamp('1990-01-01'),
    }[kind]


def label_repr(x):
    return repr(x)
